#!/bin/sh
# usage: tlc.sh <metadir> <args...>   (always under timeout by the caller)
MD="$1"; shift
exec java -Xss1g -XX:+UseParallelGC -cp /opt/veriftools/tla/tla2tools.jar:/opt/veriftools/tla/CommunityModules-deps.jar tlc2.TLC -noGenerateSpecTE -metadir "$MD" "$@"
