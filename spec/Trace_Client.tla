----------------------------- MODULE Trace_Client -----------------------------
(***************************************************************************)
(* The real client.HTTPClient against a scripted 3-node cluster (C20):      *)
(*   - a write is only ever sent to the node the client currently believes  *)
(*     to be the leader (its configuration, or the last topology it was      *)
(*     given by a redirect or by /info/shards),                              *)
(*   - every call terminates, with a bounded number of requests,            *)
(*   - after a leader change or failure, redirect or discovery make writes   *)
(*     succeed again within three calls on a stable cluster.                 *)
(* Client.tla-level model of the loops: per call at most one health-check    *)
(* pass, one discovery pass, |E|+1 read attempts and one write (+ redirects).*)
(***************************************************************************)
EXTENDS Integers, Sequences, FiniteSets, TLC, Json
CONSTANTS TraceFile
Trace == ndJsonDeserialize(TraceFile)
VARIABLES l, told, pdead, sdead, leader, mode, cfg, nreq, expect, viol
vars == <<l, told, pdead, sdead, leader, mode, cfg, nreq, expect, viol>>
View == l
Tag(what) == "C20|" \o ToString(l) \o "|" \o what
Hosts == {"s0.qed", "s1.qed", "s2.qed"}
Init == /\ l = 1 /\ told = "" /\ pdead = FALSE /\ sdead = FALSE /\ leader = "" /\ mode = [h \in Hosts |-> "ok"] /\ cfg = [discovery |-> FALSE, health |-> FALSE, revive |-> FALSE]
        /\ nreq = 0 /\ expect = FALSE /\ viol = {}
Ev == Trace[l]

(* requests per call: health-check pass (|E|) + discovery pass (|E|+1) + reads (|E|+1, twice) + write and redirects (10) *)
Bound == 3 + 4 + 8 + 11

IsWrite(e) == e.method = "POST" /\ e.path \in {"/events", "/events/bulk"}

(* would a write succeed eventually on this (unchanging) cluster? *)
(* pdead: the client has marked its primary dead (a request to it failed); it only tries it again
   after a health check (if enabled) found it alive, or after discovery gave it a new topology *)
Converges ==
  /\ leader # "" /\ mode[leader] = "ok" /\ told \in Hosts
  /\ (~pdead \/ cfg.health) /\ mode[told] = "ok"        \* direct, or the believed leader redirects
  (* No expectation is derived from discovery: whether the client runs it depends on its per-endpoint
     dead marks (primary object vs list objects, silent revival when every endpoint is marked), which
     this trace specification does not track - three over-claims of an earlier version were found by
     the thorough tier with new seeds (DESIGN 7). Those marks are specified in ClientTopology.tla /
     Client.tla and validated per transition (Trace_ClientTopology). *)

StepClient == /\ Ev.a = "client"
              /\ told' = Ev.primary /\ pdead' = FALSE /\ sdead' = FALSE /\ leader' = Ev.leader /\ mode' = [h \in Hosts |-> "ok"]
              /\ cfg' = [discovery |-> Ev.discovery, health |-> Ev.health, revive |-> Ev.revive] /\ nreq' = 0 /\ expect' = FALSE
              /\ UNCHANGED viol
(* the answer to a request that the HTTP layer sent on by itself after a 3xx belongs to the request
   to the OLD primary: a failure marks that endpoint, not the new believed leader *)
Followed == l > 1 /\ Trace[l - 1].a = "rt" /\ Trace[l - 1].resp = "3xx" /\ Trace[l - 1].told = Ev.host
StepRt == /\ Ev.a = "rt"
          /\ told' = IF Ev.told # "" THEN Ev.told ELSE told
          /\ pdead' = IF Ev.told # "" THEN FALSE
                      ELSE IF Followed THEN pdead
                      ELSE IF Ev.host = told /\ Ev.resp \in {"none", "5xx", "4xx"} THEN TRUE   \* (a read that fails marks its endpoint dead, also on 4xx)
                      ELSE IF Ev.host = told /\ Ev.resp \in {"2xx", "3xx"} THEN FALSE ELSE pdead
          (* sdead: the primary is certainly marked dead (transport error or 5xx); pdead: it may be *)
          /\ sdead' = IF Ev.told # "" THEN FALSE
                      ELSE IF Followed THEN sdead
                      (* only a failed WRITE certainly marks the primary object: reads and discovery
                         requests go through the endpoint list, whose objects the primary may not share *)
                      ELSE IF Ev.host = told /\ IsWrite(Ev) /\ Ev.resp \in {"none", "5xx"} THEN TRUE
                      ELSE IF Ev.host = told /\ Ev.resp \in {"2xx", "3xx"} THEN FALSE ELSE sdead
          /\ nreq' = nreq + 1
          /\ viol' = viol \cup (IF IsWrite(Ev) /\ Ev.host # told
                                THEN {Tag("write sent to " \o Ev.host \o " while the believed leader is " \o told)} ELSE {})
          /\ UNCHANGED <<leader, mode, cfg, expect>>
StepFault == /\ Ev.a = "fault" /\ mode' = [mode EXCEPT ![Ev.host] = Ev.mode] /\ UNCHANGED <<told, pdead, sdead, leader, cfg, nreq, expect, viol>>
StepLeader == /\ Ev.a = "leader" /\ leader' = Ev.host /\ UNCHANGED <<told, pdead, sdead, mode, cfg, nreq, expect, viol>>
StepCall == /\ Ev.a = "call" /\ nreq' = 0
            /\ expect' = IF Ev.kind = "add" /\ Ev.rep = 0 THEN Converges ELSE IF Ev.kind = "add" THEN expect ELSE FALSE
            /\ UNCHANGED <<told, pdead, sdead, leader, mode, cfg, viol>>
StepRet == /\ Ev.a = "ret"
           /\ viol' = viol
                \cup (IF Ev.hang THEN {Tag("call never returned (" \o Ev.kind \o ")")} ELSE {})
                \cup (IF nreq > Bound THEN {Tag("call issued more requests than the bound (" \o Ev.kind \o ")")} ELSE {})
                \cup (IF Ev.kind = "add" /\ ~Ev.hang /\ expect /\ Ev.err /\ l > 3 /\ Trace[l - 1].a # "flood"
                         /\ \E k \in 1..(l - 1) : Trace[k].a = "call" /\ Trace[k].kind = "add" /\ Trace[k].rep = 2
                                                   /\ \A j \in (k + 1)..(l - 1) : Trace[j].a # "call"
                      THEN {Tag("writes do not converge on the new leader within three calls")} ELSE {})
           /\ UNCHANGED <<told, pdead, sdead, leader, mode, cfg, nreq, expect>>
StepFlood == /\ Ev.a = "flood" /\ viol' = viol \cup {Tag("call floods the cluster with requests (no termination)")}
             /\ UNCHANGED <<told, pdead, sdead, leader, mode, cfg, nreq, expect>>
StepOther == /\ Ev.a \in {"ready", "client_error"} /\ UNCHANGED <<told, pdead, sdead, leader, mode, cfg, nreq, expect, viol>>
Next == /\ l <= Len(Trace) /\ l' = l + 1
        /\ (StepClient \/ StepRt \/ StepFault \/ StepLeader \/ StepCall \/ StepRet \/ StepFlood \/ StepOther)
Spec == Init /\ [][Next]_vars
Report == (l = Len(Trace) + 1) => PrintT(<<"VIOL", viol>>)
Accepted == TLCGet("stats").diameter = Len(Trace) + 1
=============================================================================
