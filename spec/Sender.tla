-------------------------------- MODULE Sender --------------------------------
(***************************************************************************)
(* server/sender.go: NumSenders concurrent batchers take snapshots from one *)
(* channel, sign each, and publish batches on the agent's outgoing bus when  *)
(* a batch is full (on the arrival of the next snapshot) or when no snapshot *)
(* arrived for Interval (Tick).                                              *)
(* Signatures are symbolic: Sig(m) verifies exactly for m.                   *)
(***************************************************************************)
EXTENDS Integers, Sequences, FiniteSets, TLC

CONSTANTS Batchers, BatchSize, MaxSnaps

VARIABLES chan,       \* snapshots handed to the sender, not yet taken (FIFO)
          batch,      \* [Batchers -> sequence of signed snapshots being collected]
          published,  \* sequence of published batches
          produced    \* number of snapshots produced so far (snapshot ids are 1..produced)

vars == <<chan, batch, published, produced>>

Sig(m) == [signed |-> m]
Signed(s) == [snap |-> s, sig |-> Sig(s)]
Verify(m, sg) == sg = Sig(m)

Init == chan = <<>> /\ batch = [b \in Batchers |-> <<>>] /\ published = <<>> /\ produced = 0

Produce == /\ produced < MaxSnaps
           /\ produced' = produced + 1
           /\ chan' = Append(chan, produced + 1)
           /\ UNCHANGED <<batch, published>>

(* a batcher receives the next snapshot: a full batch is flushed first *)
Take(b) == /\ chan # <<>>
           /\ LET s == Head(chan) IN
              IF Len(batch[b]) = BatchSize
              THEN /\ published' = Append(published, batch[b])
                   /\ batch' = [batch EXCEPT ![b] = <<Signed(s)>>]
              ELSE /\ batch' = [batch EXCEPT ![b] = Append(batch[b], Signed(s))]
                   /\ UNCHANGED published
           /\ chan' = Tail(chan)
           /\ UNCHANGED produced

(* no arrival for Interval: a non-empty batch is flushed *)
Tick(b) == /\ batch[b] # <<>>
           /\ published' = Append(published, batch[b])
           /\ batch' = [batch EXCEPT ![b] = <<>>]
           /\ UNCHANGED <<chan, produced>>

Next == Produce \/ \E b \in Batchers : Take(b) \/ Tick(b)
Spec == Init /\ [][Next]_vars
FairSpec == Spec /\ \A b \in Batchers : WF_vars(Tick(b)) /\ WF_vars(\E c \in Batchers : Take(c))

RECURSIVE Flat(_)
Flat(ss) == IF ss = <<>> THEN <<>> ELSE Head(ss) \o Flat(Tail(ss))
Ids(sq) == { sq[i].snap : i \in 1..Len(sq) }

PublishedIds == Ids(Flat(published))
HeldIds == UNION { Ids(batch[b]) : b \in Batchers }
ChanIds == { chan[i] : i \in 1..Len(chan) }

BatchBound == \A i \in 1..Len(published) : Len(published[i]) >= 1 /\ Len(published[i]) <= BatchSize
(* each snapshot is in exactly one place, exactly once *)
ExactlyOnce == /\ Len(Flat(published)) = Cardinality(PublishedIds)
               /\ PublishedIds \cap HeldIds = {} /\ PublishedIds \cap ChanIds = {} /\ HeldIds \cap ChanIds = {}
               /\ PublishedIds \cup HeldIds \cup ChanIds = 1..produced
               /\ \A b \in Batchers : Len(batch[b]) = Cardinality(Ids(batch[b])) /\ Len(batch[b]) <= BatchSize
               /\ \A b \in Batchers, c \in Batchers : b # c => Ids(batch[b]) \cap Ids(batch[c]) = {}
AllSigned == \A i \in 1..Len(Flat(published)) : Verify(Flat(published)[i].snap, Flat(published)[i].sig)
(* liveness: everything produced is eventually published *)
EventuallyPublished == \A s \in 1..MaxSnaps : (s <= produced) ~> (s \in PublishedIds)
=============================================================================
