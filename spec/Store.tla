-------------------------------- MODULE Store --------------------------------
(***************************************************************************)
(* storage.Store as the balloon and the FSM rely on it: one sorted map per  *)
(* table.  Keys are byte strings (sequences of 0..255) ordered               *)
(* lexicographically; values are opaque.                                     *)
(*                                                                         *)
(*   Mutate(batch)    all mutations of the batch become visible at once;    *)
(*                    inside a batch the last write to a key wins            *)
(*   Get              last value written for (table, key) or not-found       *)
(*   GetRange         entries with start <= key <= end, in order             *)
(*   GetAll + Read(k) every entry of the table exactly once, in order, in    *)
(*                    pages of at most k                                     *)
(*   GetLast          greatest key of THAT table, or not-found               *)
(*   Close/Reopen     durable back-end: contents unchanged                   *)
(***************************************************************************)
EXTENDS Integers, Sequences, FiniteSets, TLC, SequencesExt

Tables == {"default", "hyper", "hypercache", "history", "fsm"}

RECURSIVE LexLess(_, _)
LexLess(a, b) ==     \* strict lexicographic order on byte sequences
  IF a = <<>> THEN b # <<>>
  ELSE IF b = <<>> THEN FALSE
  ELSE IF a[1] # b[1] THEN a[1] < b[1]
  ELSE LexLess(Tail(a), Tail(b))

LexLeq(a, b) == a = b \/ LexLess(a, b)

EmptyStore == [t \in Tables |-> <<>>]      \* table -> function key -> value  (<<>> = empty function)

(* apply a batch: sequence of [t, k, v]; later entries overwrite earlier ones *)
RECURSIVE ApplyBatch(_, _)
ApplyBatch(st, batch) ==
  IF batch = <<>> THEN st
  ELSE LET m == Head(batch)
           tab == st[m.t]
           tab2 == [k \in DOMAIN tab \cup {m.k} |-> IF k = m.k THEN m.v ELSE tab[k]] IN
       ApplyBatch([st EXCEPT ![m.t] = tab2], Tail(batch))

Sorted(keys) == SetToSortSeq(keys, LexLess)

GetReply(st, t, k) == IF k \in DOMAIN st[t] THEN [found |-> TRUE, v |-> st[t][k]] ELSE [found |-> FALSE]

RangeReply(st, t, lo, hi) ==
  LET ks == Sorted({k \in DOMAIN st[t] : LexLeq(lo, k) /\ LexLeq(k, hi)}) IN
  [i \in 1..Len(ks) |-> [k |-> ks[i], v |-> st[t][ks[i]]]]

ScanReply(st, t) ==
  LET ks == Sorted(DOMAIN st[t]) IN
  [i \in 1..Len(ks) |-> [k |-> ks[i], v |-> st[t][ks[i]]]]

LastReply(st, t) ==
  IF DOMAIN st[t] = {} THEN [found |-> FALSE]
  ELSE LET k == CHOOSE k \in DOMAIN st[t] : \A o \in DOMAIN st[t] : LexLeq(o, k) IN
       [found |-> TRUE, k |-> k, v |-> st[t][k]]

(* paged reading: the pages of a full scan with page size p *)
RECURSIVE Pages(_, _)
Pages(s, p) == IF Len(s) <= p THEN (IF s = <<>> THEN <<>> ELSE <<s>>)
               ELSE <<SubSeq(s, 1, p)>> \o Pages(SubSeq(s, p + 1, Len(s)), p)
=============================================================================
