----------------------------- MODULE MC_History -----------------------------
(***************************************************************************)
(* Exhaustive check of the history-tree design for every tree size up to   *)
(* MaxN: one state per log length; each invariant quantifies over all       *)
(* (index, version) / (start, end) pairs whose later version is the newest. *)
(* Because every length is a state, every pair is covered.                  *)
(***************************************************************************)
EXTENDS History

CONSTANTS MaxN

VARIABLES n,       \* number of events inserted
          store,   \* frozen-node store as the implementation builds it
          root,    \* root returned by the last insertion
          sel      \* -1 while growing; otherwise the index / start version whose
                   \* proofs this state examines (a leaf state, so that TLC's workers
                   \* evaluate the expensive invariants of different (n, sel) in parallel)

          , armed  \* expensive invariants are evaluated only in armed states (see sel)
vars == <<n, store, root, sel, armed>>

Ev(i)  == "e" \o ToString(i)                 \* distinct event digests
Log(k) == [i \in 1..k |-> Ev(i - 1)]
Fork(k, at) == [i \in 1..k |-> IF i - 1 >= at THEN "f" \o ToString(i - 1) ELSE Ev(i - 1)]
Swap(k, at) == [i \in 1..k |-> IF i - 1 = at THEN "x" \o ToString(i - 1) ELSE Ev(i - 1)]

Init == n = 0 /\ store = <<>> /\ root = Bad("none") /\ sel = -1 /\ armed = FALSE

Grow == /\ sel = -1 /\ n < MaxN
        /\ n' = n + 1
        /\ root' = InsertRoot(store, Ev(n), n)
        /\ store' = InsertStore(store, Ev(n), n)
        /\ sel' = -1 /\ armed' = FALSE

Examine == /\ sel = -1 /\ n > 0
           /\ \E i \in 0..(n - 1) : sel' = i
           /\ UNCHANGED <<n, store, root, armed>>

Arm == sel >= 0 /\ ~armed /\ armed' = TRUE /\ UNCHANGED <<n, store, root, sel>>

Next == Grow \/ Examine \/ Arm

Spec == Init /\ [][Next]_vars

V == n - 1
L == Log(n)

(* C04: incremental construction = canonical definition; frozen store exact *)
IncrementalEqualsCanonical ==
  n > 0 => /\ root = Root(L, V)
           /\ \A k \in DOMAIN store : IsFrozen(k[1], k[2], V) /\ store[k] = Node(L, k[1], k[2], V)
           /\ \A i \in 0..V : \A h \in 0..BitLen(V) :
                 (i % Pow2(h) = 0 /\ IsFrozen(i, h, V)) => <<i, h>> \in DOMAIN store

(* C04: a version's digest only depends on the prefix: roots of forks that  *)
(* agree up to v are equal, and any difference at or before v changes it     *)
RootDependsExactlyOnPrefix ==
  armed => \A at \in {sel} : \A v \in 0..V :
              /\ (v < at => Root(Fork(n, at), v) = Root(L, v))
              /\ (v >= at => Root(Fork(n, at), v) # Root(L, v))
              /\ (v >= at => Root(Swap(n, at), v) # Root(L, v))

(* C01 (history part): prover collects exactly what the verifier reads, and the proof verifies *)
MembershipComplete ==
  armed => \A i \in {sel} :
     LET p == ProveMembership(L, i, V) IN
     /\ DOMAIN p = VerReads(i, V, 0, BitLen(V))
     /\ VerifyMembership(p, i, V, L[i + 1], Root(L, V))

(* C02 (history part): a genuine path never verifies for another digest, another index,
   another version, or with any entry dropped / replaced by another known node *)
KnownNodes == { Node(L, i, 0, V) : i \in 0..V } \cup { Root(L, v) : v \in 0..V }

MembershipSound ==
  armed => \A i \in {sel} :
     LET p == ProveMembership(L, i, V) IN
     /\ \A j \in 0..V : j # i => ~VerifyMembership(p, i, V, L[j + 1], Root(L, V))
     /\ \A j \in 0..V : j # i => ~VerifyMembership(p, j, V, L[i + 1], Root(L, V))
     /\ \A v \in 0..V : v # V /\ i <= v => ~VerifyMembership(p, i, V, L[i + 1], Root(L, v))
     /\ \A k \in DOMAIN p :
          /\ ~VerifyMembership([x \in DOMAIN p \ {k} |-> p[x]], i, V, L[i + 1], Root(L, V))
          /\ \A t \in KnownNodes : t # p[k] =>
                ~VerifyMembership([p EXCEPT ![k] = t], i, V, L[i + 1], Root(L, V))

(* C03: every pair verifies; nothing unused in the proof *)
IncReads(s, e) == { PosKey(q[1], q[2]) : q \in IncKeys({s, e}, s, e, 0, BitLen(e)) }

IncrementalComplete ==
  armed => \A s \in {sel} :
     LET p == ProveIncremental(L, s, V) IN
     VerifyIncremental(p, s, V, Root(L, s), Root(L, V))

(* C03: forks and alterations are rejected *)
IncrementalSound ==
  armed => \A s \in {sel} :
     LET p == ProveIncremental(L, s, V) IN
     /\ \A v \in 0..V : v # s => ~VerifyIncremental(p, s, V, Root(L, v), Root(L, V))
     /\ \A v \in 0..V : v # V => ~VerifyIncremental(p, s, V, Root(L, s), Root(L, v))
     /\ \A at \in 0..V :
           /\ ~VerifyIncremental(p, s, V, Root(L, s), Root(Fork(n, at), V))
           /\ ~VerifyIncremental(p, s, V, Root(L, s), Root(Swap(n, at), V))
           /\ (at <= s => ~VerifyIncremental(p, s, V, Root(Fork(n, at), s), Root(L, V)))
           /\ (at <= s => ~VerifyIncremental(p, s, V, Root(Swap(n, at), s), Root(L, V)))
           (* a forked server's own honest proof between its own digests is fine, but it can
              not link our start digest to its end digest when the fork is at or before start *)
           /\ (at <= s => ~VerifyIncremental(ProveIncremental(Fork(n, at), s, V), s, V,
                                              Root(L, s), Root(Fork(n, at), V)))
     /\ \A s2 \in 0..V : s2 # s => ~VerifyIncremental(p, s2, V, Root(L, s), Root(L, V))
     /\ \A e2 \in 0..V : (e2 # V /\ e2 >= s) => ~VerifyIncremental(p, s, e2, Root(L, s), Root(L, V))
     /\ \A k \in DOMAIN p :
          /\ ~VerifyIncremental([x \in DOMAIN p \ {k} |-> p[x]], s, V, Root(L, s), Root(L, V))
          /\ \A t \in KnownNodes : t # p[k] =>
                ~VerifyIncremental([p EXCEPT ![k] = t], s, V, Root(L, s), Root(L, V))

(* a fork that happens after `start` IS linkable to our start digest: consistency only
   promises a common prefix up to start (sanity check that Sound is not vacuous/over-strong) *)
ForkAfterStartLinks ==
  (armed /\ sel < V) => \A s \in {sel} : \A at \in (s + 1)..V :
     VerifyIncremental(ProveIncremental(Fork(n, at), s, V), s, V, Root(L, s), Root(Fork(n, at), V))
=============================================================================
