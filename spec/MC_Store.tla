------------------------------ MODULE MC_Store ------------------------------
(* Sanity of the store model and the lemmas the balloon relies on, exhaustively over
   small tables: 3 tables x 4 keys (incl. the empty key and byte-order extremes) x 2 values,
   batches of up to 2 mutations, up to MaxOps batches. *)
EXTENDS Store

CONSTANT MaxOps
VARIABLES st, nops
vars == <<st, nops>>

T3 == {"hyper", "history", "fsm"}
K4 == {<<>>, <<0>>, <<255>>, <<255, 255>>}
V2 == {"a", "b"}
Muts == [t : T3, k : K4, v : V2]
Batches == { <<m>> : m \in Muts } \cup { <<m1, m2>> : m1 \in Muts, m2 \in Muts }

Init == st = EmptyStore /\ nops = 0
Next == nops < MaxOps /\ \E b \in Batches : st' = ApplyBatch(st, b) /\ nops' = nops + 1
Spec == Init /\ [][Next]_vars

(* a paged scan returns every entry exactly once, in order, whatever the page size *)
RECURSIVE Flat(_)
Flat(ps) == IF ps = <<>> THEN <<>> ELSE Head(ps) \o Flat(Tail(ps))
ScanLemma == \A t \in T3 : \A p \in 1..5 :
   LET s == ScanReply(st, t) IN
   /\ Flat(Pages(s, p)) = s
   /\ \A i \in 1..Len(s) : \A j \in 1..Len(s) : i < j => LexLess(s[i].k, s[j].k)
   /\ {s[i].k : i \in 1..Len(s)} = DOMAIN st[t]
LastLemma == \A t \in T3 :
   LET r == LastReply(st, t) s == ScanReply(st, t) IN
   IF s = <<>> THEN ~r.found ELSE r.found /\ r.k = s[Len(s)].k
RangeLemma == \A t \in T3 : \A lo \in K4 : \A hi \in K4 :
   LET r == RangeReply(st, t, lo, hi) IN
   {r[i].k : i \in 1..Len(r)} = {k \in DOMAIN st[t] : LexLeq(lo, k) /\ LexLeq(k, hi)}
(* a mutation of one table never changes another table *)
Isolation == [][\A t \in T3 : st'[t] # st[t] => \E b \in Batches : st' = ApplyBatch(st, b) /\ \E i \in 1..Len(b) : b[i].t = t]_vars
=============================================================================
