----------------------------- MODULE Trace_Agents -----------------------------
(* Trace validation of the real auditor / monitor / publisher tasks against Agents.tla *)
EXTENDS Agents, Json
CONSTANTS TraceFile
Trace == ndJsonDeserialize(TraceFile)
VARIABLES l, seen, viol
vars == <<l, seen, viol>>
View == l
Tag(what) == "C19|" \o ToString(l) \o "|" \o what
Init == l = 1 /\ seen = {} /\ viol = {}
Ev == Trace[l]
RECURSIVE FlatV(_)
FlatV(ps) == IF ps = <<>> THEN <<>> ELSE Head(ps) \o FlatV(Tail(ps))
StepTask ==
  /\ Ev.a = "task"
  /\ LET pubs == FlatV(Ev.published)
         pubset == { pubs[i] : i \in 1..Len(pubs) } IN
     /\ seen' = IF Ev.role = "publisher" THEN seen \cup pubset ELSE seen
     /\ viol' = viol
          \cup (IF Ev.tamper = "empty_batch" THEN {}
                ELSE IF Ev.ran = 0 /\ Ev.role # "publisher" THEN {Tag("no task ran for a batch the " \o Ev.role \o " had not seen")} ELSE {})
          \cup (IF Ev.ran > 0 /\ MustAlert(Ev.role, Ev.tamper) /\ Ev.alerts = 0
                THEN {Tag(Ev.role \o " raised no alert although verification must fail (" \o Ev.tamper \o ")")} ELSE {})
          \cup (IF MustNotAlert(Ev.role, Ev.tamper) /\ Ev.alerts > 0
                THEN {Tag(Ev.role \o " raised an alert against an honest log (" \o Ev.tamper \o ")")} ELSE {})
          \cup (IF Ev.role = "publisher" /\ Ev.tamper = "none" /\ Ev.ran > 0 /\ pubset # ToPublish(seen, Ev.lo, Ev.hi)
                THEN {Tag("publisher did not forward exactly the snapshots it had not forwarded before")} ELSE {})
          \cup (IF Ev.role = "publisher" /\ (Len(pubs) # Cardinality(pubset) \/ pubset \cap seen # {})
                THEN {Tag("publisher forwarded a snapshot twice")} ELSE {})
StepOther ==
  /\ Ev.a \in {"reset", "empty_batch_begin", "empty_batch_end"}
  /\ seen' = IF Ev.a = "reset" THEN {} ELSE seen
  /\ viol' = viol
Next == l <= Len(Trace) /\ l' = l + 1 /\ (StepTask \/ StepOther)
Spec == Init /\ [][Next]_vars
Report == (l = Len(Trace) + 1) => PrintT(<<"VIOL", viol>>)
Accepted == TLCGet("stats").diameter = Len(Trace) + 1
=============================================================================
