----------------------------- MODULE Trace_Store -----------------------------
(* Trace validation of storage.Store back-ends (BPlusTreeStore, RocksDBStore) against Store.tla:
   every reply of the real store must equal the reply of the sorted-map model. *)
EXTENDS Store, Json

CONSTANTS TraceFile
Trace == ndJsonDeserialize(TraceFile)

VARIABLES l, st, kind, viol
vars == <<l, st, kind, viol>>
View == l

Tag(prop, what) == prop \o "|" \o ToString(l) \o "|" \o what \o " [" \o kind \o "]"
Init == l = 1 /\ st = EmptyStore /\ kind = "?" /\ viol = {}
Ev == Trace[l]

KVs(s) == [i \in 1..Len(s) |-> [k |-> s[i].k, v |-> s[i].v]]
RECURSIVE FlatP(_)
FlatP(ps) == IF ps = <<>> THEN <<>> ELSE KVs(Head(ps)) \o FlatP(Tail(ps))

Panicked(e) == IF "panic" \in DOMAIN e THEN {Tag("C14", "store operation panicked: " \o e.a)} ELSE {}

StepReset == Ev.a = "reset" /\ st' = EmptyStore /\ kind' = Ev.kind /\ UNCHANGED viol
StepMutate == /\ Ev.a = "mutate" /\ st' = ApplyBatch(st, Ev.batch) /\ UNCHANGED kind
              /\ viol' = viol \cup Panicked(Ev) \cup (IF Ev.err THEN {Tag("C14", "mutate failed")} ELSE {})
(* what a concurrent reader saw, with one consistent range read over the keys of a large batch
   while it was written: counts of keys carrying the new value, the previous value, anything else.
   A batch becomes visible all at once: never a mixture. *)
StepObserve == /\ Ev.a = "observe" /\ UNCHANGED <<st, kind>>
               /\ viol' = viol \cup
                    (IF \E i \in 1..Len(Ev.obs) : LET o == Ev.obs[i] IN
                            o.other # 0 \/ (o.new # 0 /\ o.new # Ev.n) \/ (o.new # 0 /\ o.old # 0) \/ (o.old # 0 /\ o.old # Ev.n)
                     THEN {Tag("C14", "a batch of mutations became visible in parts to a concurrent reader")} ELSE {})
StepGet == /\ Ev.a = "get" /\ UNCHANGED <<st, kind>>
           /\ viol' = viol \cup Panicked(Ev) \cup
                LET r == GetReply(st, Ev.t, Ev.k) IN
                IF "panic" \in DOMAIN Ev THEN {}
                ELSE IF r.found # Ev.found THEN {Tag("C14", "get: presence differs from the map model")}
                ELSE IF r.found /\ r.v # Ev.v THEN {Tag("C14", "get: value is not the last one written")} ELSE {}
StepRange == /\ Ev.a = "range" /\ UNCHANGED <<st, kind>>
             /\ viol' = viol \cup Panicked(Ev) \cup
                  (IF "panic" \notin DOMAIN Ev /\ KVs(Ev.res) # RangeReply(st, Ev.t, Ev.lo, Ev.hi)
                   THEN {Tag("C14", "range read differs from the map model")} ELSE {})
StepScan == /\ Ev.a = "scan" /\ UNCHANGED <<st, kind>>
            /\ viol' = viol \cup Panicked(Ev) \cup
                 (IF "panic" \in DOMAIN Ev THEN {} ELSE
                  LET got == FlatP(Ev.pages) want == ScanReply(st, Ev.t) IN
                  (IF got # want THEN
                     {Tag("C14", IF Len(got) > Len(want) THEN "full scan returns entries that are not in the table"
                                 ELSE IF Len(got) < Len(want) THEN "full scan misses entries of the table"
                                 ELSE "full scan differs from the map model")} ELSE {})
                  \cup (IF \E i \in 1..Len(Ev.pages) : Len(Ev.pages[i]) > Ev.page
                        THEN {Tag("C14", "reader returned more than the buffer size")} ELSE {}))
StepLast == /\ Ev.a = "last" /\ UNCHANGED <<st, kind>>
            /\ viol' = viol \cup Panicked(Ev) \cup
                 (IF "panic" \in DOMAIN Ev THEN {} ELSE
                  LET r == LastReply(st, Ev.t) IN
                  IF r.found # Ev.found THEN {Tag("C14", "last-key query: presence differs from the map model")}
                  ELSE IF r.found /\ (r.k # Ev.k \/ r.v # Ev.v)
                       THEN {Tag("C14", "last-key query does not return the greatest key of that table")} ELSE {})
StepReopen == /\ Ev.a = "reopen" /\ UNCHANGED <<st, kind>>
              /\ viol' = viol \cup (IF Ev.err THEN {Tag("C14", "reopen failed")} ELSE {})

Next == /\ l <= Len(Trace) /\ l' = l + 1
        /\ (StepReset \/ StepMutate \/ StepObserve \/ StepGet \/ StepRange \/ StepScan \/ StepLast \/ StepReopen)
Spec == Init /\ [][Next]_vars
Report == (l = Len(Trace) + 1) => PrintT(<<"VIOL", viol>>)
Accepted == TLCGet("stats").diameter = Len(Trace) + 1
=============================================================================
