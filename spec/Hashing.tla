------------------------------- MODULE Hashing -------------------------------
(***************************************************************************)
(* Hashing as a free constructor.                                          *)
(*                                                                         *)
(* A digest is a *term*:                                                   *)
(*    [b |-> hex]   a literal byte string (hex, lower case)                *)
(*    [h |-> args]  the hash of the concatenation of args (a sequence of   *)
(*                  terms); QED's Salted(salt, data...) = H(data ++ salt)  *)
(*    [d |-> i]     the i-th default hash of the sparse tree               *)
(*                  D(0) = H(<<00, 00>>), D(i) = H(<<D(i-1), D(i-1)>>)     *)
(*                  (kept as an atom: as a tree it has 2^i nodes)          *)
(*    [bad |-> r]   "the verifier could not compute this" (missing entry)  *)
(*                                                                         *)
(* Because H is injective and its range is disjoint from the literals, a  *)
(* verifier accepts exactly when the recomputed term equals the expected   *)
(* term: soundness statements are exact instead of "up to collisions".    *)
(* The Go side plugs a hash-consing hashing.Hasher into the real code and  *)
(* decompiles real digests into the same JSON shape.                       *)
(***************************************************************************)
EXTENDS Integers, Sequences, FiniteSets, TLC

B(hex)  == [b |-> hex]
D(i)    == [d |-> i]
Bad(r)  == [bad |-> r]

IsBad(t) == "bad" \in DOMAIN t

(* hashing anything that could not be computed could not be computed either *)
H(args) == IF \E i \in 1..Len(args) : IsBad(args[i]) THEN Bad("arg") ELSE [h |-> args]

HexDigits == <<"0","1","2","3","4","5","6","7","8","9","a","b","c","d","e","f">>
Hex2(n) == HexDigits[(n \div 16) + 1] \o HexDigits[(n % 16) + 1]

RECURSIVE HexBE(_, _)
HexBE(n, nbytes) == IF nbytes = 0 THEN "" ELSE HexBE(n \div 256, nbytes - 1) \o Hex2(n % 256)

U64(n) == HexBE(n, 8)
U16(n) == HexBE(n, 2)

RECURSIVE Pow2(_)
Pow2(n) == IF n = 0 THEN 1 ELSE 2 * Pow2(n - 1)

RECURSIVE BitLen(_)
BitLen(n) == IF n = 0 THEN 0 ELSE 1 + BitLen(n \div 2)

Min(a, b) == IF a <= b THEN a ELSE b
Max(a, b) == IF a >= b THEN a ELSE b

(* bits (sequence of 0/1, length multiple of 4) -> hex *)
RECURSIVE BitsToHex(_)
BitsToHex(bs) ==
  IF bs = <<>> THEN ""
  ELSE HexDigits[8*bs[1] + 4*bs[2] + 2*bs[3] + bs[4] + 1] \o BitsToHex(SubSeq(bs, 5, Len(bs)))

Zeros(n) == [i \in 1..n |-> 0]

(* all subterms of a term (used for the adversary's knowledge) *)
RECURSIVE SubTerms(_)
SubTerms(t) ==
  IF "h" \in DOMAIN t
  THEN {t} \cup UNION { SubTerms(t.h[i]) : i \in 1..Len(t.h) }
  ELSE {t}

(* digests only: things of digest length the adversary may place in a proof *)
IsHashTerm(t) == "h" \in DOMAIN t \/ "d" \in DOMAIN t
=============================================================================
