-------------------------- MODULE Trace_BalloonBig --------------------------
(***************************************************************************)
(* Trace validation of the real balloon at scale (thousands of events, the  *)
(* hyper cache table spanning several pages of the warm-up that runs when a *)
(* node is reopened).  Same checks as Trace_Balloon; the specification's    *)
(* hyper tree is kept in its incremental (trie) form, which MC_Hyper shows  *)
(* to be the canonical tree, so one insertion costs O(depth).               *)
(***************************************************************************)
EXTENDS Trace_Balloon

VARIABLE trie
bvars == <<vars, trie>>

BInit == Init /\ trie = TrieE

BStepAdd3(log2, trie2, hr2) ==
  /\ log' = log2
  /\ trie' = trie2
  /\ hroot' = hr2
  /\ hmap' = [k \in DOMAIN hmap \cup Range(Ev.bulk) |-> 0]   \* only its domain is used here
  /\ hyps' = <<>>
  /\ viol' = viol \cup Fails(IF Ev.a = "add" THEN AddChecks(Ev, log2, hr2) ELSE AddBigChecks(Ev, log2, hr2))
  /\ UNCHANGED reopened
BStepAdd2(log2, trie2) == BStepAdd3(log2, trie2, TRoot(trie2))
BStepAdd ==
  /\ Ev.a \in {"add", "addbig"}
  /\ BStepAdd2(log \o Ev.bulk, TApplyBulk(trie, Ev.bulk, Len(log)))

(* the version the hyper tree holds for d, read from the trie *)
HVal(d) == TSearch(trie, d).value

BStepMember ==
  /\ Ev.a = "member"
  /\ LET hm == (Ev.d :> HVal(Ev.d)) @@ hmap IN   \* exact for the queried digest (all the checks read)
     viol' = viol \cup Fails(MemberChecksWith(Ev, log,
                 IF Ev.d \in DOMAIN hmap THEN hm ELSE hmap, hroot, TSearch(trie, Ev.d)))
  /\ UNCHANGED <<log, hmap, hroot, hyps, reopened, trie>>

BStepReset ==
  /\ StepReset /\ trie' = TrieE

BNext ==
  /\ l <= Len(Trace)
  /\ l' = l + 1
  /\ \/ BStepAdd \/ BStepMember \/ BStepReset
     \/ ((StepIncr \/ StepReopen \/ StepInfo) /\ UNCHANGED trie)

BSpec == BInit /\ [][BNext]_bvars
=============================================================================
