---------------------------- MODULE Trace_Cluster ----------------------------
(***************************************************************************)
(* Trace validation of real QED clusters (3 consensus.RaftNodes: real raft  *)
(* over loopback, real RocksDB behind the gated store, symbolic hasher)      *)
(* against the specification.                                                *)
(*                                                                         *)
(* The abstract state is the ONE committed sequence of events `log` (with    *)
(* the hyper map and digests per version, as in Trace_Balloon) plus, per     *)
(* node, the Cluster.tla view: how many events it has persisted, its applied *)
(* raft index, and whether an apply is between compute and persist.  The     *)
(* committed log is defined by the first event that mentions a version (the  *)
(* leader's persist, a follower's persist or the acknowledgement); every     *)
(* later mention on any node must agree (C05/C06).                           *)
(*                                                                         *)
(* Event -> Cluster.tla action:                                              *)
(*   pbegin  ApplyCompute done, db.Mutate entered   pend  ApplyPersist       *)
(*   ack     reply of RaftNode.Add/AddBulk           start/stop Restart/Stop *)
(*   load    InstallSnapshot (LoadSnapshot)          snapshot TakeSnapshot   *)
(*   nmember/nincr Query(n)                          dump  (observation)     *)
(***************************************************************************)
EXTENDS Trace_Balloon

VARIABLES nst,      \* node -> [up, len, idx, pend, pidx, restored, restarted, unknown]
          hmaps,    \* one entry per inserted bulk: [lo, hi, m, t, r] = versions lo..hi-1, hyper map, trie, root term after it
          dumps,    \* applied raft index -> digest of the whole store (first node seen)
          nacked,   \* number of versions acknowledged to the (sequential) client
          lost,     \* digests of adds whose acknowledgement failed (may or may not be committed)
          blist     \* backups that exist: sequence of [id, meta]

cvars == <<l, log, hmap, hroot, hyps, reopened, viol, nst, hmaps, dumps, nacked, lost, blist>>

CView == l

N0 == [up |-> FALSE, len |-> 0, idx |-> 0, pend |-> 0, pidx |-> 0, restored |-> FALSE, restarted |-> FALSE, unknown |-> FALSE,
       maybe |-> FALSE, fork |-> FALSE, crashed |-> FALSE]   \* maybe: killed between compute and persist - the atomic write either landed or not

(* A node killed inside db.Mutate holds either the state before the write or the state after it
   (Cluster.tla: Crash is enabled in pc = "computed"; the write batch is atomic).  The first
   observation after the restart tells which; any other state is not a prefix of the log. *)
Landed(s)    == [s EXCEPT !.len = s.len + s.pend, !.idx = s.pidx, !.pend = 0, !.maybe = FALSE]
NotLanded(s) == [s EXCEPT !.pend = 0, !.maybe = FALSE]
Resolve(s, obsIdx, obsLen) ==
  IF ~s.maybe THEN s
  ELSE IF obsIdx = s.pidx /\ obsLen = s.len + s.pend THEN Landed(s)
  ELSE IF obsIdx = s.idx /\ obsLen = s.len THEN NotLanded(s)
  ELSE [NotLanded(s) EXCEPT !.unknown = TRUE]
ResolveBad(s, obsIdx, obsLen) ==
  s.maybe /\ ~(obsIdx = s.pidx /\ obsLen = s.len + s.pend) /\ ~(obsIdx = s.idx /\ obsLen = s.len)

CInit == /\ l = 2 /\ log = <<>> /\ hmap = <<>> /\ hroot = TrieE /\ hyps = <<>> /\ reopened = FALSE /\ viol = {}
         /\ nst = <<N0, N0, N0>> /\ hmaps = <<>> /\ dumps = <<>> /\ nacked = 0 /\ lost = {} /\ blist = <<>>

(* tags: every failure is reported under each property it falsifies *)
NTags(props, n, what) ==
  { Tag(p, what \o " [node " \o ToString(n) \o "]") : p \in props }
  \cup (IF nst[n].restored THEN {Tag("C09", "after state transfer: " \o what \o " [node " \o ToString(n) \o "]")} ELSE {})
  \cup (IF nst[n].restarted THEN {Tag("C08", "after restart: " \o what \o " [node " \o ToString(n) \o "]")} ELSE {})
  \cup (IF nst[n].crashed THEN {Tag("C07", "after crash recovery: " \o what \o " [node " \o ToString(n) \o "]")} ELSE {})

(* mention of versions v0 .. v0+Len(ds)-1 with digests ds: extend the committed log or agree with it *)
Agrees(v0, ds) == \A i \in 1..Len(ds) : (v0 + i - 1 < Len(log)) => log[v0 + i] = ds[i]
Extends(v0, ds) == v0 <= Len(log) /\ v0 + Len(ds) > Len(log)
NewPart(v0, ds) == SubSeq(ds, Len(log) - v0 + 1, Len(ds))

(* the hyper tree is kept in its incremental form (MC_Hyper: it is the canonical tree); in this
   module the variable hroot holds that trie and hmaps one entry (map, trie, root term) per
   inserted bulk; HEnt(hs, c) is the entry describing the hyper tree of a log of c events.  Expensive values are operator arguments, which TLC evaluates once
   (an action-level LET is re-evaluated at every reference). *)
HEnt(hs, c) == hs[CHOOSE i \in 1..Len(hs) : hs[i].lo < c /\ c <= hs[i].hi]

MentionNew3(np, hm2, tr2, hr2) ==
  /\ log' = log \o np
  /\ hmap' = hm2 /\ hroot' = tr2
  /\ hyps' = hyps   \* unused here: TLC normalises every value of every state, so the history of
                    \* hyper trees is kept per bulk (hmaps), not per version
  /\ hmaps' = Append(hmaps, [lo |-> Len(log), hi |-> Len(log) + Len(np), m |-> hm2, t |-> tr2, r |-> hr2])
MentionNew2(np, hm2, tr2) == MentionNew3(np, hm2, tr2, TRoot(tr2))
MentionNew(np) == MentionNew2(np, ApplyBulkMap(hmap, np, Len(log)), TApplyBulk(hroot, np, Len(log)))

Mention(v0, ds) ==
  IF Extends(v0, ds) /\ Agrees(v0, ds)
  THEN MentionNew(NewPart(v0, ds))
  ELSE UNCHANGED <<log, hmap, hroot, hyps, hmaps>>

MentionFails(props, n, v0, ds) ==
  IF ~Agrees(v0, ds) THEN NTags(props, n, "another event at an already committed version")
  ELSE IF v0 > Len(log) THEN NTags(props, n, "version gap: versions skipped")
  ELSE {}

(*------------------------------------------------------------ persist ----*)
(* RaftNode.resetAppliedIndex (fix a4 of finding F11): a node bootstrapped on a store restored from
   a backup rewrites its fsm state keeping the version and forgetting the applied raft index *)
IsIndexReset(e) == Len(e.leaves) = 0 /\ e.hasfsm /\ e.idx = 0 /\ ~e.hasmeta

StepIndexReset ==
  /\ Ev.a = "pbegin" /\ IsIndexReset(Ev)
  /\ LET n == Ev.n s == nst[n] IN
     /\ nst' = [nst EXCEPT ![n].pend = 0, ![n].pidx = 0, ![n].idx = 0]
     /\ viol' = viol \cup (IF ~s.unknown /\ s.len > 0 /\ Ev.bver # s.len - 1
                            THEN {Tag("C16", "applied-index reset changed the version [node " \o ToString(n) \o "]")} ELSE {})
  /\ UNCHANGED <<log, hmap, hroot, hyps, hmaps, reopened, dumps, nacked, lost, blist>>

StepPBegin ==
  /\ Ev.a = "pbegin" /\ ~IsIndexReset(Ev)
  /\ LET n == Ev.n
         s0 == nst[n]
         (* replay after a kill: the entry in flight is re-applied iff its write did not land *)
         s == IF ~s0.maybe THEN s0
              ELSE IF Ev.idx = s0.pidx /\ Ev.first = s0.len THEN NotLanded(s0) ELSE Landed(s0)
         m == Len(Ev.leaves)
         expPrev == IF s.len = 0 THEN 0 ELSE s.len - 1 IN
     /\ IF s.fork THEN UNCHANGED <<log, hmap, hroot, hyps, hmaps>> ELSE Mention(Ev.first, Ev.leaves)
     /\ nst' = [nst EXCEPT ![n] = [s EXCEPT !.pend = m, !.pidx = Ev.idx]]
     /\ viol' = viol \cup (IF s.fork THEN {} ELSE MentionFails({"C05", "C06"}, n, Ev.first, Ev.leaves))
          \cup (IF ~s.up THEN NTags({"C07"}, n, "a stopped node wrote to its store") ELSE {})
          \cup (IF s.pend # 0 THEN NTags({"C07"}, n, "two applies in flight") ELSE {})
          \cup (IF ~s.unknown /\ Ev.idx <= s.idx THEN NTags({"C07", "C05"}, n, "log entry applied twice (index not beyond the applied one)") ELSE {})
          \cup (IF ~s.unknown /\ Ev.first # s.len THEN NTags({"C05", "C07"}, n, "insertion does not continue at the node's next version") ELSE {})
          \cup (IF ~Ev.hasfsm THEN NTags({"C07"}, n, "write batch without the applied-index marker") ELSE {})
          \cup (IF ~Ev.hasmeta THEN NTags({"C09"}, n, "write batch without version metadata") ELSE {})
          \cup (IF Ev.hasfsm /\ m > 0 /\ Ev.bver # Ev.first + m - 1 THEN NTags({"C05", "C07"}, n, "fsm state names another last version") ELSE {})
          \cup (IF Ev.hasmeta /\ ~s.unknown /\ (Ev.prev # expPrev \/ Ev.new # Ev.first + m - 1)
                THEN NTags({"C09"}, n, "version metadata (previous, new) wrong") ELSE {})
  /\ UNCHANGED <<reopened, dumps, nacked, lost, blist>>

StepPEnd ==
  /\ Ev.a = "pend"
  /\ LET n == Ev.n s == nst[n] IN
     /\ nst' = [nst EXCEPT ![n].len = (IF s.unknown THEN s.len ELSE s.len + s.pend), ![n].idx = s.pidx, ![n].pend = 0]
     /\ viol' = viol \cup (IF Ev.err THEN NTags({"C07"}, n, "store write failed") ELSE {})
  /\ UNCHANGED <<log, hmap, hroot, hyps, hmaps, reopened, dumps, nacked, lost, blist>>

(*---------------------------------------------------------------- ack ----*)
StepAck ==
  /\ Ev.a = "ack"
  /\ LET n == Ev.n
         m == Len(Ev.bulk)
         ok == ~Ev.err /\ Len(Ev.snaps) > 0
         v0 == IF ok THEN Ev.snaps[1].v ELSE 0 IN
     IF ~ok
     THEN /\ lost' = lost \cup Range(Ev.bulk)
          /\ viol' = viol \cup (IF "panic" \in DOMAIN Ev THEN NTags({"C05", "C11"}, n, "add panicked") ELSE {})
          /\ UNCHANGED <<log, hmap, hroot, hyps, hmaps, nacked>>
     ELSE /\ Mention(v0, Ev.bulk)
          /\ nacked' = v0 + m
          /\ lost' = lost
          /\ viol' = viol \cup MentionFails({"C05", "C06"}, n, v0, Ev.bulk)
               \cup (IF Len(Ev.snaps) # m THEN NTags({"C05"}, n, "bulk of m events did not return m snapshots") ELSE {})
               \cup (IF v0 < nacked THEN NTags({"C05"}, n, "version acknowledged twice") ELSE {})
               \cup (IF v0 > nacked /\ \E v \in nacked..(v0 - 1) : (v < Len(log) /\ log[v + 1] \notin lost)
                     THEN NTags({"C05"}, n, "versions skipped between acknowledgements") ELSE {})
               \cup UNION { LET sn == Ev.snaps[i] v == v0 + i - 1 IN
                    (IF sn.v # v THEN NTags({"C05"}, n, "bulk versions not consecutive in request order") ELSE {})
                    \cup (IF sn.e # Ev.bulk[i] THEN NTags({"C05"}, n, "snapshot carries another event digest") ELSE {})
                    \cup (IF v < Len(log') /\ Term(sn.hist) # Root(log', v)
                          THEN NTags({"C04", "C06"}, n, "acknowledged history digest is not the canonical root") ELSE {})
                    \cup (IF v < Len(log') /\ Term(sn.hyper) # HEnt(hmaps', v + 1).r
                          THEN NTags({"C04", "C06"}, n, "acknowledged hyper digest is not the canonical root") ELSE {})
                  : i \in 1..Min(Len(Ev.snaps), m) }
               \cup (IF ~nst[n].unknown /\ nst[n].len < v0 + m
                     THEN NTags({"C07"}, n, "acknowledged before the insertion was persisted") ELSE {})
  /\ UNCHANGED <<reopened, dumps, nst, blist>>

(* acknowledgement of a large bulk: every returned version (vs) and event digest (es), and a
   sample of the snapshots (field i = position in the bulk) for the tree digests *)
StepAckBig ==
  /\ Ev.a = "ackbig"
  /\ LET n == Ev.n
         m == Len(Ev.bulk)
         ok == ~Ev.err /\ Len(Ev.vs) > 0
         v0 == IF ok THEN Ev.vs[1] ELSE 0 IN
     IF ~ok
     THEN /\ lost' = lost \cup Range(Ev.bulk)
          /\ viol' = viol \cup (IF "panic" \in DOMAIN Ev THEN NTags({"C05", "C11"}, n, "add panicked") ELSE {})
          /\ UNCHANGED <<log, hmap, hroot, hyps, hmaps, nacked>>
     ELSE /\ Mention(v0, Ev.bulk)
          /\ nacked' = v0 + m
          /\ lost' = lost
          /\ viol' = viol \cup MentionFails({"C05", "C06"}, n, v0, Ev.bulk)
               \cup (IF Len(Ev.vs) # m THEN NTags({"C05"}, n, "bulk of m events did not return m snapshots") ELSE {})
               \cup (IF v0 < nacked THEN NTags({"C05"}, n, "version acknowledged twice") ELSE {})
               \cup (IF v0 > nacked /\ \E v \in nacked..(v0 - 1) : (v < Len(log) /\ log[v + 1] \notin lost)
                     THEN NTags({"C05"}, n, "versions skipped between acknowledgements") ELSE {})
               \cup (IF \E i \in 1..Min(Len(Ev.vs), m) : Ev.vs[i] # v0 + i - 1
                     THEN NTags({"C05"}, n, "bulk versions not consecutive in request order") ELSE {})
               \cup (IF \E i \in 1..Min(Len(Ev.es), m) : Ev.es[i] # Ev.bulk[i]
                     THEN NTags({"C05"}, n, "snapshot carries another event digest") ELSE {})
               \cup UNION { LET sn == Ev.snaps[j] v == sn.v IN
                    (IF v < Len(log') /\ Term(sn.hist) # Root(log', v)
                          THEN NTags({"C04", "C06"}, n, "acknowledged history digest is not the canonical root") ELSE {})
                    \cup (IF v < Len(log') /\ Term(sn.hyper) # HEnt(hmaps', v + 1).r
                          THEN NTags({"C04", "C06"}, n, "acknowledged hyper digest is not the canonical root") ELSE {})
                  : j \in 1..Len(Ev.snaps) }
               \cup (IF ~nst[n].unknown /\ nst[n].len < v0 + m
                     THEN NTags({"C07"}, n, "acknowledged before the insertion was persisted") ELSE {})
  /\ UNCHANGED <<reopened, dumps, nst, blist>>

(*-------------------------------------------------------- lifecycle ------*)
StepBoot ==
  /\ Ev.a = "boot"
  /\ nst' = [nst EXCEPT ![Ev.n].up = TRUE, ![Ev.n].restarted = (nst[Ev.n].len > 0 \/ nst[Ev.n].idx > 0 \/ nst[Ev.n].maybe)]
  /\ UNCHANGED <<viol, log, hmap, hroot, hyps, hmaps, reopened, dumps, nacked, lost, blist>>

StepKill ==
  /\ Ev.a \in {"kill", "died"}
  /\ nst' = [nst EXCEPT ![Ev.n].up = FALSE, ![Ev.n].maybe = (nst[Ev.n].pend > 0), ![Ev.n].crashed = TRUE]
  /\ viol' = viol \cup (IF Ev.a = "died" THEN {Tag("C07", "node process died on its own [node " \o ToString(Ev.n) \o "]"),
                                               Tag("C11", "node process died on its own [node " \o ToString(Ev.n) \o "]")} ELSE {})
  /\ UNCHANGED <<log, hmap, hroot, hyps, hmaps, reopened, dumps, nacked, lost, blist>>

StepExit ==
  /\ Ev.a = "exit"
  /\ viol' = viol \cup (IF Ev.code # 0 THEN {Tag("C08", "process aborted at close [node " \o ToString(Ev.n) \o "]")} ELSE {})
  /\ UNCHANGED <<nst, log, hmap, hroot, hyps, hmaps, reopened, dumps, nacked, lost, blist>>

StepStart ==
  /\ Ev.a = "start"
  /\ LET n == Ev.n
         (* nocheck: a member of a multi-process cluster reports its state while it may already be
            applying entries replicated by the leader: the sample is not a quiescent observation *)
         nocheck == "nocheck" \in DOMAIN Ev
         bad == ~Ev.err /\ ~nocheck /\ ResolveBad(nst[n], Ev.idx, Ev.version)
         s == IF Ev.err \/ nocheck THEN nst[n] ELSE Resolve(nst[n], Ev.idx, Ev.version) IN
     IF Ev.err
     THEN /\ nst' = nst
          /\ viol' = viol \cup NTags({"C08", "C07"}, n, "node failed to start")
     ELSE IF nocheck
     THEN (* not an observation: the pending outcome of a kill (maybe) stays to be resolved by the
             next store write or dump of this node *)
          /\ nst' = [nst EXCEPT ![n].up = TRUE, ![n].pend = (IF nst[n].maybe THEN nst[n].pend ELSE 0)]
          /\ viol' = viol
     ELSE /\ nst' = [nst EXCEPT ![n] = [s EXCEPT !.up = TRUE, !.pend = 0,
                                          !.len = (IF s.unknown /\ ~nocheck THEN Ev.version ELSE s.len),
                                          !.idx = (IF s.unknown /\ ~nocheck THEN Ev.idx ELSE s.idx),
                                          !.unknown = (IF nocheck THEN s.unknown ELSE FALSE)]]
          /\ viol' = viol
               \cup (IF bad THEN NTags({"C07"}, n, "state after the crash is neither the state before nor after the interrupted write") ELSE {})
               \cup (IF ~nocheck /\ ~s.unknown /\ Ev.idx # s.idx THEN NTags({"C08", "C07"}, n, "applied index after restart differs from the persisted one") ELSE {})
               \cup (IF ~nocheck /\ ~s.unknown /\ Ev.version # s.len THEN NTags({"C08", "C07", "C05"}, n, "version after restart differs from the persisted one") ELSE {})
  /\ UNCHANGED <<log, hmap, hroot, hyps, hmaps, reopened, dumps, nacked, lost, blist>>

StepStop ==
  /\ Ev.a = "stop"
  /\ LET n == Ev.n IN
     /\ nst' = [nst EXCEPT ![n].up = FALSE]
     /\ viol' = viol
          \cup (IF Ev.err THEN {Tag("C08", "shutdown failed or panicked [node " \o ToString(n) \o "]")} ELSE {})
          \cup (IF Ev.leak > 0 THEN {Tag("C08", "reader left open at close [node " \o ToString(n) \o "]")} ELSE {})
  /\ UNCHANGED <<log, hmap, hroot, hyps, hmaps, reopened, dumps, nacked, lost, blist>>

(* state transfer: the store changes under the node; its state is re-learnt at the next dump *)
StepLoad ==
  /\ Ev.a = "load"
  /\ LET n == Ev.n IN
     /\ nst' = [nst EXCEPT ![n].unknown = (Ev.phase # "begin"), ![n].restored = TRUE]
     /\ viol' = viol
  /\ UNCHANGED <<log, hmap, hroot, hyps, hmaps, reopened, dumps, nacked, lost, blist>>

StepDump ==
  /\ Ev.a = "dump"
  /\ LET n == Ev.n
         bad == ResolveBad(nst[n], Ev.idx, Ev.version)
         s == Resolve(nst[n], Ev.idx, Ev.version)
         known == Ev.idx \in DOMAIN dumps IN
     /\ dumps' = IF known THEN dumps ELSE (Ev.idx :> Ev.digest) @@ dumps
     /\ nst' = IF s.unknown THEN [nst EXCEPT ![n] = [s EXCEPT !.unknown = FALSE, !.len = Ev.version, !.idx = Ev.idx]]
                ELSE [nst EXCEPT ![n] = s]
     /\ viol' = viol
          \cup (IF bad THEN NTags({"C07"}, n, "state after the crash is neither the state before nor after the interrupted write") ELSE {})
          \cup (IF known /\ dumps[Ev.idx] # Ev.digest THEN NTags({"C06"}, n, "store content differs from another replica at the same applied index") ELSE {})
          \cup (IF ~s.unknown /\ s.pend = 0 /\ (Ev.version # s.len \/ Ev.idx # s.idx)
                THEN NTags({"C05", "C07"}, n, "node state (version, applied index) differs from what it persisted") ELSE {})
          \cup (IF Ev.version > 0 /\ Ev.bver # Ev.version - 1 THEN NTags({"C05"}, n, "fsm last version is not version counter - 1") ELSE {})
          \cup (IF Ev.version > Len(log) THEN NTags({"C05", "C06"}, n, "node holds versions that were never committed") ELSE {})
  /\ UNCHANGED <<log, hmap, hroot, hyps, hmaps, reopened, nacked, lost, blist>>

(*------------------------------------------------------------ queries ----*)
(* a reply must be computed from ONE prefix of the committed log that the node could hold *)
(* inw > 0: the query ran while an insertion of inw events was between compute and persist and
   is recorded after that insertion completed (so that it can be verified against the then
   acknowledged snapshots): it may have been served from the state before or after it *)
ViewOKW(n, c1, inw) == LET s == nst[n] IN
  s.unknown \/ c1 = s.len \/ (s.pend > 0 /\ c1 = s.len + s.pend) \/ (inw > 0 /\ c1 = s.len - inw)
InW(e) == IF "inwindow" \in DOMAIN e THEN e.inwindow ELSE 0

Retag(tags, n) ==
  UNION { LET t == tags IN {} : x \in {} } \cup tags
  \cup (IF nst[n].restored THEN { "C09|" \o t : t \in tags } ELSE {})
  \cup (IF nst[n].restarted THEN { "C08|" \o t : t \in tags } ELSE {})
  \cup (IF nst[n].crashed THEN { "C07|" \o t : t \in tags } ELSE {})
  \cup (IF nst[n].fork THEN { "C16|" \o t : t \in tags } ELSE { "C06|" \o t : t \in tags })
  \cup (IF nst[n].pend > 0 \/ InW(Ev) > 0 THEN { "C10|" \o t : t \in tags } ELSE {})

StepNMember ==
  /\ Ev.a = "nmember"
  /\ LET n == Ev.n
         c1 == IF Ev.err THEN nst[n].len ELSE Ev.current + 1 IN
     viol' = viol \cup
       (IF Ev.err
        THEN (IF "panic" \in DOMAIN Ev THEN NTags({"C10"}, n, "membership query failed internally (panic)") ELSE
              IF nst[n].pend = 0 /\ InW(Ev) = 0 /\ ~nst[n].unknown /\ c1 <= Len(log) /\ Ev.d \in DOMAIN (IF c1 > 0 THEN HEnt(hmaps, c1).m ELSE <<>>) /\ (Ev.latest \/ HEnt(hmaps, c1).m[Ev.d] <= Ev.q)
              THEN NTags({"C01", "C06"}, n, "query for an inserted event failed") ELSE {})
        ELSE IF c1 < 1 \/ c1 > Len(log) \/ ~ViewOKW(n, c1, InW(Ev))
             THEN NTags({"C05", "C10"}, n, "current version of the reply is not a state of this node")
             ELSE Retag(MemberChecksWith(Ev, SubSeq(log, 1, c1), HEnt(hmaps, c1).m, HEnt(hmaps, c1).r, TSearch(HEnt(hmaps, c1).t, Ev.d)), n))
  /\ UNCHANGED <<log, hmap, hroot, hyps, hmaps, reopened, dumps, nacked, lost, nst, blist>>

StepNIncr ==
  /\ Ev.a = "nincr"
  /\ LET n == Ev.n
         c1 == nst[n].len + (IF "panic" \in DOMAIN Ev THEN 0 ELSE 0) IN
     viol' = viol \cup
       (IF "panic" \in DOMAIN Ev THEN NTags({"C10"}, n, "consistency query failed internally (panic)")
        ELSE IF nst[n].unknown \/ nst[n].pend > 0 THEN {}
        ELSE IF InW(Ev) > 0
        THEN (* served inside the window: a clean error, or a proof that verifies against the issued snapshots *)
             (IF ~Ev.err /\ "v_wire" \in DOMAIN Ev /\ ~Ev.v_wire
              THEN NTags({"C10"}, n, "consistency proof served during an insertion does not verify") ELSE {})
        ELSE Retag(IncrChecksOn([Ev EXCEPT !.a = "nincr"] @@ [alts |-> <<>>, v_local |-> (IF "v_wire" \in DOMAIN Ev THEN Ev.v_wire ELSE FALSE),
                                 wire_fields |-> TRUE, v_wire |-> FALSE], SubSeq(log, 1, Min(c1, Len(log)))), n))
  /\ UNCHANGED <<log, hmap, hroot, hyps, hmaps, reopened, dumps, nacked, lost, nst, blist>>

(* C16: a backup records, as its metadata, the last version of the state it captures; listing
   shows every existing backup; deleting removes only the one named *)
ListOf(e) == [i \in 1..Len(e.list) |-> [id |-> e.list[i].id, meta |-> e.list[i].meta]]
SeqMinus(sq, id) == SelectSeq(sq, LAMBDA b : b.id # id)

StepBackup ==
  /\ Ev.a = "backup"
  /\ LET n == Ev.n s == nst[n]
         got == ListOf(Ev)
         newest == IF Len(got) = 0 THEN [id |-> 0, meta |-> "?"] ELSE got[Len(got)]
         captured == s.len IN
     /\ blist' = IF Ev.err THEN blist ELSE got
     /\ viol' = viol
       \cup (IF Ev.err THEN {Tag("C16", "backup failed or panicked")} ELSE {})
       \cup (IF ~Ev.err /\ (Len(got) # Len(blist) + 1 \/ SubSeq(got, 1, Len(blist)) # blist)
             THEN {Tag("C16", "listing does not show exactly the existing backups plus the new one")} ELSE {})
       \cup (IF ~Ev.err /\ Len(got) > 0 /\ \E i \in 1..Len(blist) : blist[i].id = newest.id
             THEN {Tag("C16", "backup id reused")} ELSE {})
       \cup (IF ~Ev.err /\ Len(got) > 0 /\ ~s.unknown /\ captured > 0 /\ newest.meta # ToString(captured - 1)
             THEN {Tag("C16", "backup records a version that is not the version of the captured store" \o
                              (IF s.pend > 0 THEN " (taken while an insertion was in flight)" ELSE ""))} ELSE {})
  /\ UNCHANGED <<log, hmap, hroot, hyps, hmaps, reopened, dumps, nacked, lost, nst>>

StepDelBackup ==
  /\ Ev.a = "delbackup"
  /\ blist' = SeqMinus(blist, Ev.id)
  /\ viol' = viol
       \cup (IF Ev.err THEN {Tag("C16", "deleting an existing backup failed")} ELSE {})
       \cup (IF ~Ev.err /\ ListOf(Ev) # SeqMinus(blist, Ev.id) THEN {Tag("C16", "delete removed something else than the named backup")} ELSE {})
  /\ UNCHANGED <<log, hmap, hroot, hyps, hmaps, reopened, dumps, nacked, lost, nst>>

(* a backup restored into a fresh node (node 2, a fork of the log at the backup's version) *)
MetaLen(meta) == CHOOSE k \in 0..Len(log) : (k > 0 /\ meta = ToString(k - 1)) \/ (k = 0 /\ \A j \in 1..Len(log) : meta # ToString(j - 1))

StepRestoreBackup ==
  /\ Ev.a = "restorebackup"
  /\ viol' = viol \cup (IF Ev.err THEN {Tag("C16", "restoring an existing backup failed")} ELSE {})
  /\ UNCHANGED <<log, hmap, hroot, hyps, hmaps, reopened, dumps, nacked, lost, nst, blist>>

StepBStart ==
  /\ Ev.a = "bstart"
  /\ LET want == MetaLen(Ev.meta) IN
     IF Ev.err
     THEN /\ nst' = nst
          /\ viol' = viol \cup {Tag("C16", "a node cannot be opened on the restored backup")}
     ELSE /\ nst' = [nst EXCEPT ![Ev.n] = [N0 EXCEPT !.up = TRUE, !.len = Ev.version, !.idx = Ev.idx, !.fork = TRUE]]
          /\ viol' = viol
               \cup (IF Ev.version # want THEN {Tag("C16", "restored node does not report the backup's version")} ELSE {})
               \cup (IF Ev.version > 0 /\ Ev.bver # Ev.version - 1 THEN {Tag("C16", "restored fsm state names another version")} ELSE {})
  /\ UNCHANGED <<log, hmap, hroot, hyps, hmaps, reopened, dumps, nacked, lost, blist>>

StepBAdd ==
  /\ Ev.a = "badd"
  /\ LET c1 == Ev.was
         ok == ~Ev.err /\ "v" \in DOMAIN Ev IN
     viol' = viol \cup
       (IF ~ok THEN {Tag("C16", "the restored node cannot accept the next event" \o (IF "panic" \in DOMAIN Ev THEN " (insertion panics)" ELSE ""))}
        ELSE (IF Ev.v # c1 THEN {Tag("C16", "next event after restore does not get version v+1")} ELSE {})
             \cup (IF c1 <= Len(log) /\ Term(Ev.hist) # Root(Append(SubSeq(log, 1, c1), Ev.d), c1)
                   THEN {Tag("C16", "history digest after restore is not the canonical root")} ELSE {})
             \cup (IF c1 >= 1 /\ c1 <= Len(log) /\ Term(Ev.hyper) # TRoot(TApplyBulk(HEnt(hmaps, c1).t, <<Ev.d>>, c1))
                   THEN {Tag("C16", "hyper digest after restore is not the canonical root")} ELSE {}))
  /\ UNCHANGED <<log, hmap, hroot, hyps, hmaps, reopened, dumps, nacked, lost, nst, blist>>

StepBStop ==
  /\ Ev.a = "bstop"
  /\ nst' = [nst EXCEPT ![Ev.n] = N0]
  /\ UNCHANGED <<viol, log, hmap, hroot, hyps, hmaps, reopened, dumps, nacked, lost, blist>>

StepHang ==
  /\ Ev.a = "hang"
  /\ viol' = viol \cup {Tag("C10", "queries issued during an insertion never returned")}
  /\ UNCHANGED <<log, hmap, hroot, hyps, hmaps, reopened, dumps, nacked, lost, nst, blist>>

(* a clean stop completed while a query of that node was still reading its store *)
StepStopEarly ==
  /\ Ev.a = "stopearly"
  /\ viol' = viol \cup {Tag("C08", "shutdown completed while a query was still reading the store [node " \o ToString(Ev.n) \o "]")}
  /\ UNCHANGED <<nst, log, hmap, hroot, hyps, hmaps, reopened, dumps, nacked, lost, blist>>

(* the node's disk was replaced while it was down: it comes back as a node that holds nothing *)
StepWipe ==
  /\ Ev.a = "wipe"
  /\ nst' = [nst EXCEPT ![Ev.n] = N0]
  /\ viol' = viol \cup (IF nst[Ev.n].up THEN {Tag("D09", "wipe of a running node (driver error)")} ELSE {})
  /\ UNCHANGED <<log, hmap, hroot, hyps, hmaps, reopened, dumps, nacked, lost, blist>>

(* the restore scenario names the node that is being brought up to date by state transfer: whatever
   goes wrong on it afterwards is (also) a failure of C09, whether or not a transfer took place *)
StepRejoin ==
  /\ Ev.a \in {"rejoin", "noconverge"}
  /\ nst' = [nst EXCEPT ![Ev.n].restored = TRUE]
  /\ viol' = viol \cup (IF Ev.a = "noconverge"
                         THEN {Tag("C09", "the node brought back by state transfer never reached the state of the other replicas [node " \o ToString(Ev.n) \o "]")}
                         ELSE {})
  /\ UNCHANGED <<log, hmap, hroot, hyps, hmaps, reopened, dumps, nacked, lost, blist>>

StepCReset ==
  /\ Ev.a = "reset"
  /\ log' = <<>> /\ hmap' = <<>> /\ hroot' = TrieE /\ hyps' = <<>> /\ reopened' = FALSE
  /\ nst' = <<N0, N0, N0>> /\ hmaps' = <<>> /\ dumps' = <<>> /\ nacked' = 0 /\ lost' = {} /\ blist' = <<>>
  /\ UNCHANGED viol

StepCInfo ==
  /\ Ev.a \in {"universe", "quiesce", "transfer", "snapshot", "noleader", "scenario_error", "info"}
  /\ viol' = viol \cup (IF Ev.a = "quiesce" /\ ~Ev.ok THEN {Tag("D06", "replicas did not reach the same applied index within the deadline")} ELSE {})
                  \cup (IF Ev.a = "scenario_error" THEN {Tag("D07", "scenario aborted: " \o Ev.msg)} ELSE {})
  /\ UNCHANGED <<log, hmap, hroot, hyps, hmaps, reopened, dumps, nacked, lost, nst, blist>>

CNext ==
  /\ l <= Len(Trace)
  /\ l' = l + 1
  /\ (StepPBegin \/ StepIndexReset \/ StepPEnd \/ StepAck \/ StepAckBig \/ StepBoot \/ StepKill \/ StepExit \/ StepStart \/ StepStop \/ StepLoad \/ StepDump
      \/ StepNMember \/ StepNIncr \/ StepRejoin \/ StepWipe \/ StepStopEarly \/ StepBackup \/ StepDelBackup \/ StepRestoreBackup \/ StepBStart \/ StepBAdd \/ StepBStop \/ StepHang \/ StepCReset \/ StepCInfo)

CSpec == CInit /\ [][CNext]_cvars
=============================================================================
