-------------------------- MODULE MC_ClientTopology --------------------------
(* Exhaustive exploration of the endpoint-selection state machine: urls {a,b,c}, every update
   (any primary incl. none, any list of up to 3 secondaries incl. duplicates and the primary's
   url), every mark, every selection with every preference, up to MaxOps operations; both with
   and without the revive option. *)
EXTENDS ClientTopology
CONSTANTS MaxOps
VARIABLES P, nops
vars == <<P, nops>>
Urls == {"a", "b", "c"}
SecLists == {<<>>} \cup { <<x>> : x \in Urls } \cup { <<x, y>> : x \in Urls, y \in Urls }
            \cup { <<x, y, z>> : x \in Urls, y \in Urls, z \in Urls }
Init == P \in {Empty(TRUE), Empty(FALSE)} /\ nops = 0
Next == /\ nops < MaxOps /\ nops' = nops + 1
        /\ \/ \E p \in Urls \cup {""}, us \in SecLists : P' = Update(P, p, us)
           \/ \E i \in -1..2, w \in {"dead", "alive"} : P' = Mark(P, i, w)
           \/ \E pref \in 0..4 : P' = NextRead(P, pref).st
Spec == Init /\ [][Next]_vars

(* C20: never a dead or forbidden endpoint; one is returned whenever a live permitted one exists *)
Safe == \A pref \in 0..4 : LET r == NextRead(P, pref) IN SelectionOK(P, pref, r.ok, r.idx)

(* C20: cycling fairly: n successive selections with an unchanged topology visit every permitted choice *)
RECURSIVE Visits(_, _, _)
Visits(Q, pref, k) == IF k = 0 THEN {} ELSE LET r == NextRead(Q, pref) IN
                      (IF r.ok THEN {r.idx} ELSE {}) \cup Visits(r.st, pref, k - 1)
Fair == \A pref \in 0..4 : MustFind(P, pref) # {} => LET vs == Visits(P, pref, Len(P.eps) + 1) IN MustFind(P, pref) \subseteq vs /\ vs \subseteq MayChoose(P, pref)

(* the primary object is never shared with a listed endpoint of another url *)
PrimaryWellFormed == P.pi >= -2 /\ P.pi < Len(P.eps)
=============================================================================
