-------------------------------- MODULE Hyper --------------------------------
(***************************************************************************)
(* The sparse ("hyper") Merkle tree of QED (balloon/hyper).                *)
(*                                                                         *)
(* NB   number of key bits (= digest bits: 256; 8 in small models)          *)
(* CL   cache height limit: nodes above it are always interior nodes;       *)
(*      at or below it a subtree holding exactly one key is a shortcut leaf *)
(* AllKeys     the keys (named by their hex string) the model talks about   *)
(* KeyBits(k)  the bits of key k                                            *)
(*                                                                         *)
(* Canonical definition over a map S : key -> version                       *)
(*   empty subtree at height h        D(h)                                  *)
(*   shortcut leaf (1 key, h <= CL)   H(value || pos)                        *)
(*   interior node                    H(right || left || pos)               *)
(*        (sic: the stack interpreter of balloon/hyper/operation.go pops the *)
(*        right subtree first and calls it "leftHash"; prover and verifier    *)
(*        agree, so this order IS the construction every issued digest has)   *)
(*   pos(prefix, h) = U16BE(h) || prefix padded with zero bits to NB bits   *)
(*   value          = version, big endian, NB/8 bytes                        *)
(* It does not depend on insertion order by construction; the code is held  *)
(* to it (C04).                                                             *)
(*                                                                         *)
(* A node is addressed as (k, n, b): the first n-1 bits of key k followed    *)
(* by bit b (n = 0: the root); its height is NB - n.  Every node the tree    *)
(* ever materialises lies on the path of some key or is the sibling of such  *)
(* a node, so this addressing is complete, and position strings are built    *)
(* from per-key prefix tables with three concatenations.                     *)
(***************************************************************************)
EXTENDS Hashing

CONSTANTS NB, CL, AllKeys, KeyBits(_)

ND == NB \div 4                       \* hex digits per key

KeyNibs(k) == LET b == KeyBits(k) IN
  [m \in 1..ND |-> HexDigits[8*b[4*m-3] + 4*b[4*m-2] + 2*b[4*m-1] + b[4*m] + 1]]

RECURSIVE PreStr(_, _)
PreStr(nibs, m) == IF m = 0 THEN "" ELSE PreStr(nibs, m - 1) \o nibs[m]

RECURSIVE ZeroS(_)
ZeroS(j) == IF j = 0 THEN "" ELSE ZeroS(j - 1) \o "0"

(* first m hex digits of key k.  Trace configurations, whose keys are named by their own hex
   string, override this with SubSeq(k, 1, m). *)
KeyPre(k, m) == PreStr(KeyNibs(k), m)
ZeroTab   == [j \in 0..ND |-> ZeroS(j)]

BitAt(k, n) == KeyBits(k)[n]

(* hex of: first n-1 bits of k, then bit b, then zeros *)
PadHex(k, n, b) ==
  IF n = 0 THEN ZeroTab[ND]
  ELSE LET m  == (n - 1) \div 4
           j  == n - 4 * m
           kb == KeyBits(k)
           x(t) == IF t < j THEN kb[4*m + t] ELSE IF t = j THEN b ELSE 0
           val == 8*x(1) + 4*x(2) + 2*x(3) + x(4)
       IN KeyPre(k, m) \o HexDigits[val + 1] \o ZeroTab[ND - 1 - m]

HSaltAt(k, n, b)   == B(U16(NB - n) \o PadHex(k, n, b))
HPosKeyAt(k, n, b) == "0x" \o PadHex(k, n, b) \o "|" \o ToString(NB - n)
ValTerm(v) == B(HexBE(v, NB \div 8))

HLeafAt(v, k, n, b)     == H(<<ValTerm(v), HSaltAt(k, n, b)>>)
HInnerAt(l, r, k, n, b) == H(<<r, l, HSaltAt(k, n, b)>>)

Own(k, n) == IF n = 0 THEN 0 ELSE BitAt(k, n)

(* ks: the (non-empty or empty) set of keys of S below the node at depth n on the path of
   every key in ks *)
RECURSIVE HNodeK(_, _, _)
HNodeK(S, ks, n) ==
  IF ks = {} THEN D(NB - n)
  ELSE LET k == CHOOSE k \in ks : TRUE IN
       IF NB - n <= CL /\ Cardinality(ks) = 1
       THEN HLeafAt(S[k], k, n, Own(k, n))
       ELSE HInnerAt(HNodeK(S, {x \in ks : BitAt(x, n + 1) = 0}, n + 1),
                     HNodeK(S, {x \in ks : BitAt(x, n + 1) = 1}, n + 1),
                     k, n, Own(k, n))

HRoot(S) == HNodeK(S, DOMAIN S, 0)

NoValue == -1

(***************************************************************************)
(* Search (pruneToFind): siblings from the root down to the node where the  *)
(* descent stops: an empty node or a shortcut leaf (of this or another key) *)
(***************************************************************************)
RECURSIVE HSearchK(_, _, _, _, _)
HSearchK(S, ks, key, n, acc) ==
  IF ks = {} THEN [value |-> NoValue, path |-> acc, stop |-> NB - n]
  ELSE IF NB - n <= CL /\ Cardinality(ks) = 1
       THEN LET k == CHOOSE k \in ks : TRUE IN
            [value |-> IF k = key THEN S[k] ELSE NoValue, path |-> acc, stop |-> NB - n]
       ELSE LET bit  == BitAt(key, n + 1)
                same == {x \in ks : BitAt(x, n + 1) = bit}
                sib  == ks \ same IN
            HSearchK(S, same, key, n + 1,
                     acc @@ (HPosKeyAt(key, n + 1, 1 - bit) :> HNodeK(S, sib, n + 1)))

HSearch(S, key) == HSearchK(S, DOMAIN S, key, 0, <<>>)

(* The same search, reading the sibling subtrees out of an already computed root term
   t = HNodeK(S, ks, n) instead of recomputing them (used by trace validation; the
   equality HSearchT(S, key, HRoot(S)) = HSearch(S, key) is checked in MC_Hyper). *)
RECURSIVE HSearchTK(_, _, _, _, _, _)
HSearchTK(S, ks, key, n, t, acc) ==
  IF ks = {} THEN [value |-> NoValue, path |-> acc, stop |-> NB - n]
  ELSE IF NB - n <= CL /\ Cardinality(ks) = 1
       THEN LET k == CHOOSE k \in ks : TRUE IN
            [value |-> IF k = key THEN S[k] ELSE NoValue, path |-> acc, stop |-> NB - n]
       ELSE LET bit  == BitAt(key, n + 1)
                same == {x \in ks : BitAt(x, n + 1) = bit}
                \* t = H(<<right, left, salt>>)
                sub  == IF bit = 0 THEN t.h[2] ELSE t.h[1]
                sib  == IF bit = 0 THEN t.h[1] ELSE t.h[2] IN
            HSearchTK(S, same, key, n + 1, sub, acc @@ (HPosKeyAt(key, n + 1, 1 - bit) :> sib))

HSearchT(S, key, root) == HSearchTK(S, DOMAIN S, key, 0, root, <<>>)

(***************************************************************************)
(* Incremental form.  The same tree kept as a persistent trie whose interior *)
(* nodes cache their hash term, so that one insertion costs O(depth) instead *)
(* of recomputing HRoot over the whole map (trace validation of logs with    *)
(* thousands of events).  MC_Hyper checks, for every insertion sequence of   *)
(* a small universe, that it yields exactly HRoot and HSearch.               *)
(*   empty      [c |-> 0]                                                    *)
(*   leaf       [c |-> 1, key, v]          (only at heights <= CL)           *)
(*   interior   [c |-> #keys, l, r, t]     t = its hash term                 *)
(***************************************************************************)
TrieE == [c |-> 0]
TLeaf(k, v) == [c |-> 1, key |-> k, v |-> v]
TIsLeaf(node) == "key" \in DOMAIN node

TTerm(node, n) ==
  IF node.c = 0 THEN D(NB - n)
  ELSE IF TIsLeaf(node) THEN HLeafAt(node.v, node.key, n, Own(node.key, n))
  ELSE node.t

(* k: any key whose path passes through the node *)
TInner(l, r, k, n) ==
  [c |-> l.c + r.c, l |-> l, r |-> r, t |-> HInnerAt(TTerm(l, n + 1), TTerm(r, n + 1), k, n, Own(k, n))]

RECURSIVE TIns(_, _, _, _)
TIns(node, key, v, n) ==
  IF node.c = 0
  THEN IF NB - n <= CL THEN TLeaf(key, v)
       ELSE LET sub == TIns(TrieE, key, v, n + 1) IN
            IF BitAt(key, n + 1) = 0 THEN TInner(sub, TrieE, key, n) ELSE TInner(TrieE, sub, key, n)
  ELSE IF TIsLeaf(node)
  THEN IF node.key = key THEN TLeaf(key, v)
       ELSE \* the resident shortcut leaf moves one level down, then the new key is inserted
            LET pushed == IF BitAt(node.key, n + 1) = 0 THEN TInner(node, TrieE, node.key, n)
                          ELSE TInner(TrieE, node, node.key, n)
            IN TIns(pushed, key, v, n)
  ELSE IF BitAt(key, n + 1) = 0
       THEN TInner(TIns(node.l, key, v, n + 1), node.r, key, n)
       ELSE TInner(node.l, TIns(node.r, key, v, n + 1), key, n)

TRoot(trie) == TTerm(trie, 0)

(* AddBulk(bulk) at version v0: the first occurrence of a digest inside the bulk wins *)
RECURSIVE TApplyBulkK(_, _, _, _)
TApplyBulkK(trie, bulk, v0, i) ==
  IF i > Len(bulk) THEN trie
  ELSE TApplyBulkK(IF \E j \in 1..(i - 1) : bulk[j] = bulk[i] THEN trie ELSE TIns(trie, bulk[i], v0 + i - 1, 0),
                   bulk, v0, i + 1)
TApplyBulk(trie, bulk, v0) == TApplyBulkK(trie, bulk, v0, 1)

RECURSIVE TSearchK(_, _, _, _)
TSearchK(node, key, n, acc) ==
  IF node.c = 0 THEN [value |-> NoValue, path |-> acc, stop |-> NB - n]
  ELSE IF TIsLeaf(node)
  THEN [value |-> IF node.key = key THEN node.v ELSE NoValue, path |-> acc, stop |-> NB - n]
  ELSE LET bit == BitAt(key, n + 1)
           sub == IF bit = 0 THEN node.l ELSE node.r
           sib == IF bit = 0 THEN node.r ELSE node.l IN
       TSearchK(sub, key, n + 1, acc @@ (HPosKeyAt(key, n + 1, 1 - bit) :> TTerm(sib, n + 1)))

TSearch(trie, key) == TSearchK(trie, key, 0, <<>>)

(***************************************************************************)
(* Verify (QueryProof.Verify + pruneToVerify): total over arbitrary paths.   *)
(* The leaf height is derived from the NUMBER of path entries.               *)
(***************************************************************************)
HPathGetAt(path, k, n, b) ==
  LET pk == HPosKeyAt(k, n, b) IN IF pk \in DOMAIN path THEN path[pk] ELSE Bad("missing")

RECURSIVE HVerNode(_, _, _, _, _)
HVerNode(path, key, v, n, leafH) ==
  IF NB - n <= leafH THEN HLeafAt(v, key, n, Own(key, n))
  ELSE LET bit == BitAt(key, n + 1)
           sub == HVerNode(path, key, v, n + 1, leafH)
           sib == HPathGetAt(path, key, n + 1, 1 - bit) IN
       IF bit = 0 THEN HInnerAt(sub, sib, key, n, Own(key, n))
       ELSE HInnerAt(sib, sub, key, n, Own(key, n))

(* proofKey: the key the proof carries; key: the digest the client asks about *)
HVerify(path, proofKey, key, v, expectedRoot) ==
  LET c == Cardinality(DOMAIN path) IN
  IF c = 0 THEN FALSE
  ELSE LET leafH == (NB - c) % 65536
           rec   == HVerNode(path, key, v, 0, leafH) IN
       proofKey = key /\ ~IsBad(rec) /\ rec = expectedRoot

(* would the real verifier have to look up an entry that is absent?  (C12: must not crash) *)
RECURSIVE HVerMissing(_, _, _, _)
HVerMissing(path, key, n, leafH) ==
  IF NB - n <= leafH THEN FALSE
  ELSE \/ HPosKeyAt(key, n + 1, 1 - BitAt(key, n + 1)) \notin DOMAIN path
       \/ HVerMissing(path, key, n + 1, leafH)
=============================================================================
