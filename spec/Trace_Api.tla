------------------------------ MODULE Trace_Api ------------------------------
(* Trace validation of the real HTTP handlers over a real single-node RaftNode (child process)
   against Api.tla. *)
EXTENDS Api, Json
CONSTANTS TraceFile
Trace == ndJsonDeserialize(TraceFile)
VARIABLES l, ver, viol
vars == <<l, ver, viol>>
View == l
Tag(what) == "C11|" \o ToString(l) \o "|" \o what
Init == l = 1 /\ ver = 0 /\ viol = {}
Ev == Trace[l]
Desc(e) == e.method \o " " \o e.path \o " [" \o e.shape \o "]"

StepReq ==
  /\ Ev.a = "req"
  /\ LET r == [mux |-> Ev.mux, method |-> Ev.method, path |-> Ev.path, shape |-> Ev.shape, valid |-> Ev.valid] IN
     /\ ver' = IF Ev.alive THEN Ev.after ELSE ver
     /\ viol' = viol
          \cup (IF Ev.class = "none" THEN {Tag("no HTTP response (connection dropped) for " \o Desc(Ev))} ELSE {})
          \cup (IF ~Ev.alive THEN {Tag("server process died or wedged after " \o Desc(Ev))} ELSE {})
          \cup (IF Ev.class \in Classes /\ Ev.class \notin Allowed(r) THEN {Tag("response class " \o Ev.class \o " not allowed for " \o Desc(Ev))} ELSE {})
          \cup (IF Ev.alive /\ Ev.class # "none" /\ Ev.after # Effect(r, Ev.before)
                THEN {Tag("log changed by " \o ToString(Ev.after - Ev.before) \o " events after " \o Desc(Ev))} ELSE {})
          \cup (IF Ev.before # ver THEN {Tag("version changed between requests")} ELSE {})
StepProbe ==
  /\ Ev.a = "probe"
  /\ ver' = Ev.after
  /\ viol' = viol
       \cup (IF Ev.class # "2xx" \/ ~Ev.alive \/ Ev.after # Ev.before + 1
             THEN {Tag("liveness probe: a valid add is not served after the request matrix" \o (IF Ev.phase = 1 THEN " and a restart" ELSE ""))} ELSE {})
       \cup (IF Ev.member_class # "2xx" \/ ~Ev.member_exists
             THEN {Tag("liveness probe: membership of the just added event is not answered")} ELSE {})
StepOther ==
  /\ Ev.a \in {"reset", "boot", "start", "died", "restart", "replay_failed"}
  /\ ver' = IF Ev.a = "reset" THEN 0 ELSE IF Ev.a = "start" /\ ~Ev.err THEN Ev.version ELSE ver
  /\ viol' = viol
       \cup (IF Ev.a = "replay_failed" THEN {Tag("node cannot restart: the replicated log cannot be replayed")} ELSE {})
       \cup (IF Ev.a = "start" /\ ~Ev.err /\ ver # 0 /\ Ev.version # ver THEN {Tag("version after restart differs")} ELSE {})
Next == l <= Len(Trace) /\ l' = l + 1 /\ (StepReq \/ StepProbe \/ StepOther)
Spec == Init /\ [][Next]_vars
Report == (l = Len(Trace) + 1) => PrintT(<<"VIOL", viol>>)
Accepted == TLCGet("stats").diameter = Len(Trace) + 1
=============================================================================
