----------------------------- MODULE Trace_Sender -----------------------------
(* Trace validation of the real server.Sender against Sender.tla's invariants: batch bound,
   exactly-once accounting, quiescence (everything produced is published once nothing arrives),
   signatures verify and bind the content. *)
EXTENDS Integers, Sequences, FiniteSets, TLC, Json
CONSTANTS TraceFile
Trace == ndJsonDeserialize(TraceFile)
VARIABLES l, outstanding, done, bsize, ttl, viol
vars == <<l, outstanding, done, bsize, ttl, viol>>
View == l
Tag(what) == "C17|" \o ToString(l) \o "|" \o what
Init == l = 1 /\ outstanding = {} /\ done = {} /\ bsize = 0 /\ ttl = 0 /\ viol = {}
Ev == Trace[l]
StepReset == Ev.a = "reset" /\ outstanding' = {} /\ done' = {} /\ bsize' = Ev.batch /\ ttl' = Ev.ttl /\ UNCHANGED viol
StepProduce == Ev.a = "produce" /\ outstanding' = outstanding \cup {Ev.id} /\ UNCHANGED <<done, bsize, ttl, viol>>
StepPublish ==
  /\ Ev.a = "publish"
  /\ LET ids == { Ev.ids[i] : i \in 1..Len(Ev.ids) } IN
     /\ outstanding' = outstanding \ ids
     /\ done' = done \cup ids
     /\ viol' = viol
          \cup (IF Len(Ev.ids) > bsize THEN {Tag("batch larger than the configured size")} ELSE {})
          \cup (IF Len(Ev.ids) = 0 THEN {Tag("empty batch published")} ELSE {})
          \cup (IF Cardinality(ids) # Len(Ev.ids) \/ ids \cap done # {} THEN {Tag("snapshot published twice")} ELSE {})
          \cup (IF ~(ids \subseteq outstanding \cup done) THEN {Tag("published a snapshot that was never handed to the sender")} ELSE {})
          \cup (IF Ev.decode_err THEN {Tag("published batch cannot be decoded")} ELSE {})
          \cup (IF ~Ev.sigok THEN {Tag("snapshot signature does not verify under the server's key")} ELSE {})
          \cup (IF Len(Ev.tamper_accepted) > 0 THEN {Tag("modified snapshot or signature still verifies: " \o Ev.tamper_accepted[1])} ELSE {})
          \cup (IF Ev.ttl # ttl THEN {Tag("batch published with another TTL than configured")} ELSE {})
  /\ UNCHANGED <<bsize, ttl>>
StepQuiesce ==
  /\ Ev.a = "quiesce"
  /\ viol' = viol \cup (IF outstanding # {} THEN {Tag("snapshots lost: handed to the sender but never published")} ELSE {})
  /\ UNCHANGED <<outstanding, done, bsize, ttl>>
Next == l <= Len(Trace) /\ l' = l + 1 /\ (StepReset \/ StepProduce \/ StepPublish \/ StepQuiesce)
Spec == Init /\ [][Next]_vars
Report == (l = Len(Trace) + 1) => PrintT(<<"VIOL", viol>>)
Accepted == TLCGet("stats").diameter = Len(Trace) + 1
=============================================================================
