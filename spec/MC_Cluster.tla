----------------------------- MODULE MC_Cluster -----------------------------
EXTENDS Cluster
(* observation-only variables are hidden from the fingerprint *)
View == <<clog, up, dur, mem, rapplied, rsnap, lstart, Len(acked), backups, budget>>
Symm == Permutations(Nodes)
=============================================================================
