--------------------------- MODULE Trace_LogStore ---------------------------
(* Trace validation of the real raft log store (RocksDB) against LogStore.tla *)
EXTENDS LogStore, Json
CONSTANTS TraceFile
Trace == ndJsonDeserialize(TraceFile)
VARIABLES l, lg, sb, viol
vars == <<l, lg, sb, viol>>
View == l
Tag(what) == "C15|" \o ToString(l) \o "|" \o what
Init == l = 1 /\ lg = EmptyLog /\ sb = <<>> /\ viol = {}
Ev == Trace[l]
Ent(e) == [index |-> e.index, term |-> e.term, type |-> e.type, data |-> e.data, ext |-> e.ext]
Ents(s) == [i \in 1..Len(s) |-> Ent(s[i])]
Err(e) == IF e.err THEN {Tag(e.a \o " returned an error")} ELSE {}
Pan(e) == IF "panic" \in DOMAIN e THEN {Tag(e.a \o " panicked")} ELSE {}

StepReset == Ev.a = "reset" /\ lg' = EmptyLog /\ sb' = <<>> /\ UNCHANGED viol
StepStore == /\ Ev.a \in {"store", "stores"} /\ lg' = StoreAll(lg, Ents(Ev.entries)) /\ UNCHANGED sb
             /\ viol' = viol \cup Err(Ev) \cup Pan(Ev)
StepGet == /\ Ev.a = "getlog" /\ UNCHANGED <<lg, sb>>
           /\ viol' = viol \cup Pan(Ev) \cup
                LET r == GetLog(lg, Ev.index) IN
                IF "panic" \in DOMAIN Ev THEN {}
                ELSE IF r.found # Ev.found THEN {Tag("getlog: presence differs from the model")}
                ELSE IF r.found /\ r.e # Ent(Ev.entry)
                     THEN (IF "reused" \in DOMAIN Ev
                           (* decoding into a struct that still holds another entry keeps that entry's fields where
                              the stored one is empty (msgpack decode semantics); hashicorp/raft always passes a zero
                              struct, so this is a diagnostic, not a violation *)
                           THEN {"D15|" \o ToString(l) \o "|getlog into a re-used struct keeps stale fields"}
                           ELSE {Tag("getlog: entry differs from what was stored")})
                     ELSE {}
StepDel == /\ Ev.a = "delrange" /\ lg' = DeleteRange(lg, Ev.min, Ev.max) /\ UNCHANGED sb
           /\ viol' = viol \cup Err(Ev) \cup Pan(Ev)
StepFirst == /\ Ev.a = "first" /\ UNCHANGED <<lg, sb>>
             /\ viol' = viol \cup Err(Ev) \cup (IF Ev.index # FirstIndex(lg) THEN {Tag("first index differs from the model")} ELSE {})
StepLast == /\ Ev.a = "last" /\ UNCHANGED <<lg, sb>>
            /\ viol' = viol \cup Err(Ev) \cup (IF Ev.index # LastIndex(lg) THEN {Tag("last index differs from the model")} ELSE {})
StepSet == /\ Ev.a \in {"set", "setu64"} /\ sb' = SetKey(sb, Ev.k, Ev.v) /\ UNCHANGED lg
           /\ viol' = viol \cup Err(Ev)
StepGetK == /\ Ev.a \in {"get", "getu64"} /\ UNCHANGED <<lg, sb>>
            /\ viol' = viol \cup Pan(Ev) \cup
                 LET r == GetKey(sb, Ev.k) IN
                 IF "panic" \in DOMAIN Ev THEN {}
                 ELSE IF r.found # Ev.found THEN {Tag("stable get: presence differs from the model")}
                 ELSE IF r.found /\ r.v # Ev.v THEN {Tag("stable get: value differs from what was set")} ELSE {}
StepReopen == /\ Ev.a = "reopen" /\ UNCHANGED <<lg, sb>> /\ viol' = viol \cup Err(Ev)
Next == /\ l <= Len(Trace) /\ l' = l + 1
        /\ (StepReset \/ StepStore \/ StepGet \/ StepDel \/ StepFirst \/ StepLast \/ StepSet \/ StepGetK \/ StepReopen)
Spec == Init /\ [][Next]_vars
Report == (l = Len(Trace) + 1) => PrintT(<<"VIOL", viol>>)
Accepted == TLCGet("stats").diameter = Len(Trace) + 1
=============================================================================
