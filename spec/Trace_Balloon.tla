---------------------------- MODULE Trace_Balloon ----------------------------
(***************************************************************************)
(* Trace validation of the real balloon (history + hyper trees, RocksDB or  *)
(* B+ store, JSON wire format, real verifiers) against Balloon.tla.         *)
(*                                                                         *)
(* The trace is deterministic (one thread drives the balloon), so the spec  *)
(* state is just the abstract log and the hyper map; every event is checked *)
(* against what the specification computes, and every disagreement is       *)
(* recorded in `viol` as "<property>|<line>|<what>" instead of stopping, so *)
(* the orchestrator can attribute failures to properties.                   *)
(*                                                                         *)
(* Terms: the trace carries {"r": id} references into the definitions file *)
(* (line id = {"h": [refs]}), {"b": hex} literals and {"d": i} defaults;    *)
(* Term() unfolds them into the free terms of Hashing.tla.                  *)
(***************************************************************************)
EXTENDS Balloon, Json

CONSTANTS TraceFile, DefsFile

Trace == ndJsonDeserialize(TraceFile)
Defs  == ndJsonDeserialize(DefsFile)

Univ == Trace[1].keys
TraceKeyBits(k) == Univ[k]
TraceAllKeys == DOMAIN Univ
(* keys are named by their own (lower case) hex string *)
TraceKeyPre(k, m) == SubSeq(k, 1, m)

RECURSIVE Term(_)
Term(x) ==
  IF "r" \in DOMAIN x
  THEN LET as == Defs[x.r].h IN [h |-> [i \in 1..Len(as) |-> Term(as[i])]]
  ELSE x

PathTerms(p) == [k \in DOMAIN p |-> Term(p[k])]

VARIABLES l,        \* next trace line
          log,      \* abstract log: sequence of digests (hex)
          hmap,     \* digest -> version as the hyper tree must hold it
          hroot,    \* HRoot(hmap), computed once per insertion
          hyps,     \* hyper root carried by the snapshots: one entry [lo, hi, r] per inserted bulk (versions lo..hi-1)
          reopened, \* the store was closed and reopened during this run
          viol      \* set of "<property>|<line>|<what>"

vars == <<l, log, hmap, hroot, hyps, reopened, viol>>

(* the trace is linear: the line number identifies the state *)
View == l

Tag(prop, what) == prop \o "|" \o ToString(l) \o "|" \o what

(* C08 shadows every failure that shows up after a reopen *)
Fails(tags) == tags \cup (IF reopened THEN { "C08|" \o t : t \in tags } ELSE {})

Init == l = 2 /\ log = <<>> /\ hmap = <<>> /\ hroot = D(NB) /\ hyps = <<>> /\ reopened = FALSE /\ viol = {}

Ev == Trace[l]

(*-------------------------------------------------------------- add ------*)
SnapChecks(s, i, e, log2, hyperRoot, v0) ==
       (IF s.v # v0 + i - 1 THEN {Tag("C05", "version not dense")} ELSE {})
       \cup (IF s.e # e.bulk[i] THEN {Tag("C05", "snapshot carries another event digest")} ELSE {})
       \cup (IF Term(s.hist) # Root(log2, v0 + i - 1)
             THEN {Tag("C04", "history digest is not the canonical root")} ELSE {})
       \cup (IF Term(s.hyper) # hyperRoot
             THEN {Tag("C04", "hyper digest is not the canonical root")} ELSE {})
       \cup (IF ~s.sha THEN {Tag("C04", "SHA-256 digest differs from the evaluated canonical term")} ELSE {})

AddChecks(e, log2, hyperRoot) ==
  LET v0 == Len(log)
      m  == Len(e.bulk) IN
  (IF Len(e.snaps) # m THEN {Tag("C05", "bulk of m events did not return m snapshots")} ELSE {})
  \cup UNION { SnapChecks(e.snaps[i], i, e, log2, hyperRoot, v0) : i \in 1..Min(Len(e.snaps), m) }

(* a large bulk (scale scenario): the trace carries the number of snapshots returned and a
   sample of them, each with its position i in the bulk *)
AddBigChecks(e, log2, hyperRoot) ==
  LET v0 == Len(log)
      m  == Len(e.bulk) IN
  (IF e.nsnaps # m THEN {Tag("C05", "bulk of m events did not return m snapshots")} ELSE {})
  \cup UNION { LET s == e.snaps[j] IN
               IF s.i \in 1..m THEN SnapChecks(s, s.i, e, log2, hyperRoot, v0) ELSE {}
             : j \in 1..Len(e.snaps) }

(* TLC re-evaluates an action-level LET at every reference but evaluates an operator argument
   once: expensive values are therefore passed as arguments *)
StepAdd3(log2, hmap2, hr2) ==
  /\ log' = log2
  /\ hmap' = hmap2
  /\ hroot' = hr2
  /\ hyps' = Append(hyps, [lo |-> Len(log), hi |-> Len(log2), r |-> hr2])   \* per bulk, not per version: TLC normalises every value of every state
  /\ viol' = viol \cup Fails(IF Ev.a = "add" THEN AddChecks(Ev, log2, hr2) ELSE AddBigChecks(Ev, log2, hr2))
  /\ UNCHANGED reopened
StepAdd2(log2, hmap2) == StepAdd3(log2, hmap2, HRoot(hmap2))
StepAdd ==
  /\ Ev.a \in {"add", "addbig"}
  /\ StepAdd2(log \o Ev.bulk, ApplyBulkMap(hmap, Ev.bulk, Len(log)))

(*----------------------------------------------------------- member ------*)
(* sr: the specification's hyper search result for e.d *)
MemberChecksWith(e, lg, hm, hr, sr) ==
  LET cur == Len(lg) - 1
      q   == IF e.latest THEN cur ELSE e.q
      an  == AnswerWith(lg, hm, e.d, q, sr)
      inserted == e.d \in DOMAIN hm
      inRange  == inserted /\ hm[e.d] <= q /\ q <= cur  \* the quantifier of C01
  IN
  IF e.err
  THEN (IF inRange THEN {Tag("C01", "query for an inserted event failed")} ELSE {})
       \cup (IF "panic" \in DOMAIN e THEN {Tag("C10", "query panicked")} ELSE {})
  ELSE
    LET hp == PathTerms(e.hyper)
        hi == PathTerms(e.history)
        qv == Min(e.query, cur)
        wire == [exists |-> e.exists, actual |-> e.actual, query |-> e.query, key |-> e.key,
                 hyper |-> hp, history |-> hi]
        specAcc == /\ cur >= 0
                   /\ DigestVerifyIntended(wire, e.d, Root(lg, qv), hr)
    IN
    (IF inRange /\ ~e.exists THEN {Tag("C01", "inserted event reported absent")} ELSE {})
    \cup (IF inRange /\ e.exists /\ ~(e.actual \in Positions(lg, e.d))
          THEN {Tag("C01", "claimed version is not a position of the event")} ELSE {})
    \cup (IF inRange /\ "v_wire" \in DOMAIN e /\ ~e.v_wire
          THEN {Tag("C01", "honest proof rejected by the client verifier")} ELSE {})
    \cup (IF inRange /\ "v_wire" \notin DOMAIN e
          THEN {Tag("C01", "no snapshot to verify against")} ELSE {})
    \cup (IF e.current # cur THEN {Tag("C05", "current version is not #events-1")} ELSE {})
    \cup (IF ~inserted /\ e.exists THEN {Tag("C02", "never inserted digest reported present")} ELSE {})
    \cup (IF "v_wire" \in DOMAIN e /\ e.v_wire /\ ~ClaimTrue(lg, wire, e.d)
          THEN {Tag("C02", "verifier accepted an answer whose claim is false")} ELSE {})
    \cup (IF "v_wire" \in DOMAIN e /\ "v_local" \in DOMAIN e /\ e.query <= cur /\ e.v_wire # e.v_local
          THEN {Tag("C13", "verdict changed by the wire round trip")} ELSE {})
    \cup (IF ~e.wire_fields THEN {Tag("C13", "field changed by the wire round trip")} ELSE {})
    \cup (IF "v_wire_panic" \in DOMAIN e \/ "v_local_panic" \in DOMAIN e
          THEN {Tag("C12", "verifier panicked")} ELSE {})
    \cup (IF "wrong_hist" \in DOMAIN e /\ \E i \in 1..Len(e.wrong_hist) :
                e.wrong_hist[i].acc /\ e.exists /\ e.actual <= e.query
                 /\ ~VerifyMembership(hi, e.actual, e.query, e.d, Root(lg, e.wrong_hist[i].v))
          THEN {Tag("C02", "proof accepted against another version's history digest")} ELSE {})
    (* diagnostics (D..): real answer differs from the specification's answer although no
       property is falsified by that alone *)
    \cup (IF ~an.err /\ (an.exists # e.exists \/ (an.exists /\ an.actual # e.actual))
          THEN {Tag("D01", "answer fields differ from the specification")} ELSE {})
    \cup (IF ~an.err /\ an.hyper # hp THEN {Tag("D01", "hyper audit path differs from the specification")} ELSE {})
    \cup (IF ~an.err /\ an.hasHistory /\ an.history # hi
          THEN {Tag("D01", "history audit path differs from the specification")} ELSE {})
    \cup (IF "v_wire" \in DOMAIN e /\ e.v_wire # specAcc
          THEN {Tag("D02", "real verifier and specification verifier disagree")} ELSE {})

MemberChecksOn(e, lg, hm, hr) == MemberChecksWith(e, lg, hm, hr, HSearchT(hm, e.d, hr))

MemberChecks(e) == MemberChecksOn(e, log, hmap, hroot)

StepMember ==
  /\ Ev.a = "member"
  /\ viol' = viol \cup Fails(MemberChecks(Ev))
  /\ UNCHANGED <<log, hmap, hroot, hyps, reopened>>

(*------------------------------------------------------------- incr ------*)
IncrChecksOn(e, lg) ==
  LET n == Len(lg)
      valid == e.s <= e.e /\ e.e < n IN
  IF e.err
  THEN (IF valid THEN {Tag("C03", "consistency query for a valid pair failed")} ELSE {})
       \cup (IF "panic" \in DOMAIN e THEN {Tag("C11", "invalid range made the query panic")} ELSE {})
  ELSE IF ~valid THEN {Tag("C11", "invalid range was answered instead of rejected")}
  ELSE
    LET p == PathTerms(e.path)
        specV == VerifyIncremental(p, e.rs, e.re, Root(lg, e.s), Root(lg, e.e))
        honest == ProveIncremental(lg, e.s, e.e)
    IN
    (IF ~e.v_wire THEN {Tag("C03", "honest consistency proof rejected")} ELSE {})
    \cup (IF e.rs # e.s \/ e.re # e.e THEN {Tag("C03", "proof names other versions")} ELSE {})
    \cup (IF e.v_wire # e.v_local THEN {Tag("C13", "verdict changed by the wire round trip")} ELSE {})
    \cup (IF ~e.wire_fields THEN {Tag("C13", "field changed by the wire round trip")} ELSE {})
    \cup UNION { LET al == e.alts[i]
                     \* a forked lg agrees with this one on versions before the fork point, so its
                     \* digest of such a version IS the genuine digest and must be accepted
                     same == \/ (al.k = "end_fork" /\ al.at > e.e)
                             \/ (al.k = "start_fork" /\ al.at > e.s) IN
                 IF same
                 THEN (IF ~al.acc THEN {Tag("C03", "genuine digest (fork not yet diverged) rejected")} ELSE {})
                 ELSE (IF al.acc THEN {Tag("C03", "altered proof or wrong digest accepted: " \o al.k)} ELSE {})
               : i \in 1..Len(e.alts) }
    \cup (IF \E i \in 1..Len(e.alts) : "panic" \in DOMAIN e.alts[i]
          THEN {Tag("C12", "verifier panicked on an altered proof")} ELSE {})
    \cup (IF p # honest THEN {Tag("D03", "consistency audit path differs from the specification")} ELSE {})
    \cup (IF specV # e.v_wire THEN {Tag("D02", "real verifier and specification verifier disagree")} ELSE {})

IncrChecks(e) == IncrChecksOn(e, log)

StepIncr ==
  /\ Ev.a = "incr"
  /\ viol' = viol \cup Fails(IncrChecks(Ev))
  /\ UNCHANGED <<log, hmap, hroot, hyps, reopened>>

(*---------------------------------------------------- adversarial answers -*)
(* An altered / recombined / forged wire answer was handed to the real decoder and the
   real verifier together with authentic snapshots of this log. *)
AdvChecks(e) ==
  LET wire == [exists |-> e.exists, actual |-> e.actual, query |-> e.query, key |-> e.key,
               hyper |-> PathTerms(e.hyper), history |-> PathTerms(e.history)]
      histRoot == Root(log, e.histv)
      hypRoot  == hyps[CHOOSE i \in 1..Len(hyps) : hyps[i].lo < e.hypv + 1 /\ e.hypv + 1 <= hyps[i].hi].r
      specInt  == DigestVerifyIntended(wire, e.d, histRoot, hypRoot)
  IN
  (IF e.res \in {"panic", "timeout"}
   THEN {Tag("C12", e.res \o "@" \o (IF "site" \in DOMAIN e THEN e.site ELSE "?") \o " (membership, " \o e.kind \o ")")}
   ELSE {})
  \cup (IF e.res = "acc" /\ ~ClaimTrue(log, wire, e.d)
        THEN {Tag("C02", "accepted a false claim: " \o
                   (IF ~e.exists THEN "absence-claim" ELSE
                    IF e.actual > e.query THEN "exists-with-actual>query" ELSE "wrong-digest-or-version")
                   \o " (" \o e.kind \o ")")}
        ELSE {})
  \cup (IF e.kind = "genuine" /\ e.d \in DOMAIN hmap /\ hmap[e.d] <= e.query /\ e.res # "acc"
        THEN {Tag("C01", "genuine answer not accepted")} ELSE {})
  \cup (IF ~e.clamped /\ e.res \in {"acc", "rej"} /\ (e.res = "acc") # specInt
        THEN {Tag("D02", "real verifier and specification verifier disagree (" \o e.kind \o ")")} ELSE {})
  \cup (IF ~e.clamped /\ e.res = "acc" /\ ~specInt
        THEN {Tag("D04", "accepted by the code, rejected by the intended verifier (" \o e.kind \o ")")} ELSE {})
  \cup (IF specInt /\ ~ClaimTrue(log, wire, e.d)
        THEN {Tag("D05", "SPEC UNSOUND: intended verifier accepts a false claim (" \o e.kind \o ")")} ELSE {})

StepAdv ==
  /\ Ev.a = "adv"
  /\ viol' = viol \cup AdvChecks(Ev)
  /\ UNCHANGED <<log, hmap, hroot, hyps, reopened>>

AdvIncChecks(e) ==
  LET p == PathTerms(e.path)
      specV == VerifyIncremental(p, e.s, e.e, Root(log, e.sv), Root(log, e.ev))
      (* what an accepted proof claims: the log whose digest is snapshot sv is a prefix of the
         log whose digest is snapshot ev, as versions s and e of one history *)
      legit == e.s = e.sv /\ e.e = e.ev /\ e.s <= e.e
  IN
  (IF e.res \in {"panic", "timeout"}
   THEN {Tag("C12", e.res \o "@" \o (IF "site" \in DOMAIN e THEN e.site ELSE "?") \o " (incremental, " \o e.kind \o ")")}
   ELSE {})
  \cup (IF e.res = "acc" /\ (~legit \/ (~e.clamped /\ ~specV))
        THEN {Tag("C03", "altered proof or wrong digest accepted (" \o e.kind \o ")")} ELSE {})
  \cup (IF e.kind = "genuine" /\ e.res # "acc" THEN {Tag("C03", "genuine consistency proof not accepted")} ELSE {})
  \cup (IF ~e.clamped /\ e.res \in {"acc", "rej"} /\ (e.res = "acc") # specV
        THEN {Tag("D02", "real verifier and specification verifier disagree (incremental, " \o e.kind \o ")")} ELSE {})

StepAdvInc ==
  /\ Ev.a = "advinc"
  /\ viol' = viol \cup AdvIncChecks(Ev)
  /\ UNCHANGED <<log, hmap, hroot, hyps, reopened>>

(* the real HTTP client was handed an arbitrary 200-OK body for a proof request by a hostile server *)
StepAdvRaw ==
  /\ Ev.a = "advraw"
  /\ viol' = viol
       \cup (IF Ev.res \in {"panic", "timeout"}
             THEN {Tag("C12", Ev.res \o "@" \o (IF "site" \in DOMAIN Ev THEN Ev.site ELSE "?") \o " (client given the body " \o Ev.body \o " for a " \o Ev.endpoint \o " request)")}
             ELSE {})
       \cup (IF Ev.res = "acc" THEN {Tag("C02", "degenerate answer accepted by the client (" \o Ev.endpoint \o ", body " \o Ev.body \o ")")} ELSE {})
  /\ UNCHANGED <<log, hmap, hroot, hyps, reopened>>

(*------------------------------------------------------ other events -----*)
StepReset ==
  /\ Ev.a = "reset"
  /\ log' = <<>> /\ hmap' = <<>> /\ hroot' = D(NB) /\ hyps' = <<>> /\ reopened' = FALSE
  /\ UNCHANGED viol

StepReopen ==
  /\ Ev.a = "reopen"
  /\ reopened' = TRUE
  /\ viol' = viol \cup (IF Ev.version # Len(log)
                        THEN {Tag("C08", "version after reopen differs"), Tag("C05", "version after reopen differs")}
                        ELSE {})
  /\ UNCHANGED <<log, hmap, hroot, hyps>>

StepInfo ==
  /\ Ev.a \in {"forkinfo", "universe"}
  /\ UNCHANGED <<log, hmap, hroot, hyps, reopened, viol>>

Next ==
  /\ l <= Len(Trace)
  /\ l' = l + 1
  /\ (StepAdd \/ StepMember \/ StepIncr \/ StepAdv \/ StepAdvInc \/ StepAdvRaw \/ StepReset \/ StepReopen \/ StepInfo)

Spec == Init /\ [][Next]_vars

(* printed once, in the final state; the orchestrator parses it *)
Report == (l = Len(Trace) + 1) => PrintT(<<"VIOL", viol>>)

Accepted == TLCGet("stats").diameter = Len(Trace)
=============================================================================
