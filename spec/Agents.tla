-------------------------------- MODULE Agents --------------------------------
(***************************************************************************)
(* The gossip agents' tasks (cmd/agent_auditor.go, agent_monitor.go,        *)
(* agent_publisher.go) over the verifiers specified in Balloon.tla.         *)
(*                                                                         *)
(* Which published values each task binds (s = first snapshot of the batch, *)
(* l = last):                                                               *)
(*   auditor  membership proof of s.EventDigest at version s.Version from   *)
(*            the log, verified against s.HistoryDigest and the STORED      *)
(*            hyper digest of the proof's current version                   *)
(*   monitor  consistency proof (s.Version, l.Version) from the log,        *)
(*            verified against s.HistoryDigest and l.HistoryDigest          *)
(*   publisher forwards the snapshots of the batch it has not forwarded     *)
(*            before (keyed by signature), never the same one twice         *)
(* An alteration of any value a task binds, or of the log's answer, makes    *)
(* verification fail (C02/C03: MembershipSound, IncrementalSound), hence:    *)
(***************************************************************************)
EXTENDS Integers, Sequences, FiniteSets, TLC

AuditorBinds == {"gossip_history", "gossip_event", "gossip_version_up", "gossip_version_down", "store_hyper",
                 "log_proof_history_entry", "log_proof_hyper_entry", "log_other_event", "log_claims_absent", "log_error"}
MonitorBinds == {"gossip_first_history", "gossip_last_history", "gossip_last_version_up", "log_path_entry", "log_error"}
(* alterations of values the task does not use must NOT raise an alert (honest log) *)
AuditorIgnores == {"none", "gossip_hyper"}
MonitorIgnores == {"none", "gossip_hyper"}
(* the store cannot deliver the snapshot at all: nothing to verify against (either outcome) *)
Undetermined == {"store_missing"}

MustAlert(role, tamper) == (role = "auditor" /\ tamper \in AuditorBinds) \/ (role = "monitor" /\ tamper \in MonitorBinds)
MustNotAlert(role, tamper) == (role = "auditor" /\ tamper \in AuditorIgnores) \/ (role = "monitor" /\ tamper \in MonitorIgnores)
                              \/ role = "publisher"

(* publisher: what must be forwarded for a delivered batch lo..hi given what was forwarded before *)
ToPublish(seen, lo, hi) == { v \in lo..hi : v \notin seen }
=============================================================================
