------------------------------ MODULE LogStore ------------------------------
(***************************************************************************)
(* The persistent store backing the consensus log (consensus/raft_log.go):  *)
(* raft.LogStore + raft.StableStore.  hashicorp/raft's safety argument       *)
(* assumes exactly this behaviour.                                           *)
(*   entries : index -> entry (all fields), last store wins                  *)
(*   FirstIndex / LastIndex : smallest / largest stored index, 0 when empty  *)
(*   DeleteRange(min, max)  : removes exactly the indexes min..max inclusive *)
(*   stable  : key -> value                                                  *)
(*   Reopen  : nothing changes                                               *)
(***************************************************************************)
EXTENDS Integers, Sequences, FiniteSets, TLC

EmptyLog == <<>>        \* function index -> entry

RECURSIVE StoreAll(_, _)
StoreAll(lg, es) ==
  IF es = <<>> THEN lg
  ELSE LET e == Head(es) IN
       StoreAll([i \in DOMAIN lg \cup {e.index} |-> IF i = e.index THEN e ELSE lg[i]], Tail(es))

DeleteRange(lg, lo, hi) == [i \in {j \in DOMAIN lg : j < lo \/ j > hi} |-> lg[i]]

SetMin(S) == CHOOSE x \in S : \A y \in S : x <= y
SetMax(S) == CHOOSE x \in S : \A y \in S : x >= y
FirstIndex(lg) == IF DOMAIN lg = {} THEN 0 ELSE SetMin(DOMAIN lg)
LastIndex(lg)  == IF DOMAIN lg = {} THEN 0 ELSE SetMax(DOMAIN lg)

GetLog(lg, i) == IF i \in DOMAIN lg THEN [found |-> TRUE, e |-> lg[i]] ELSE [found |-> FALSE]

SetKey(sb, k, v) == [x \in DOMAIN sb \cup {k} |-> IF x = k THEN v ELSE sb[x]]
GetKey(sb, k) == IF k \in DOMAIN sb THEN [found |-> TRUE, v |-> sb[k]] ELSE [found |-> FALSE]
=============================================================================
