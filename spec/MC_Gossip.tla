------------------------------ MODULE MC_Gossip ------------------------------
EXTENDS Gossip
MCRoleOf == [a \in Agents |-> CASE a = "a1" -> "auditor" [] a = "a2" -> "auditor" [] a = "m1" -> "monitor" [] OTHER -> "publisher"]
TTLsA == {-1, 0, 2, 3}
TTLsB == {-1, 0, 3}
=============================================================================
