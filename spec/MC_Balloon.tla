----------------------------- MODULE MC_Balloon -----------------------------
(***************************************************************************)
(* Exhaustive check of the balloon design on a small universe: 8-bit keys   *)
(* (NB = 8, cache limit CL = 4, as QED configures an 8-bit hasher), every   *)
(* sequence of single/bulk insertions over the universe up to MaxLen events *)
(* (duplicates allowed), and for each reachable log                          *)
(*   - completeness of honest answers (C01),                                 *)
(*   - soundness of the client verifier against an adversary that alters,    *)
(*     recombines and forges answers from everything it knows (C02),         *)
(*   - the pinned verifier (Pinned = TRUE) is expected to FAIL Sound.        *)
(***************************************************************************)
EXTENDS Balloon

CONSTANTS MaxLen, MaxBulk, Pinned

(* keys whose pairwise common prefixes are 0,1,3,4,5,7 bits: both sides of the batch
   boundary (height 4) which is also the cache limit of the 8-bit tree *)
U == {"00", "01", "08", "10", "14", "80", "81"}
Bits8(k) ==
  CASE k = "00" -> <<0,0,0,0,0,0,0,0>>
    [] k = "01" -> <<0,0,0,0,0,0,0,1>>
    [] k = "08" -> <<0,0,0,0,1,0,0,0>>
    [] k = "10" -> <<0,0,0,1,0,0,0,0>>
    [] k = "14" -> <<0,0,0,1,0,1,0,0>>
    [] k = "80" -> <<1,0,0,0,0,0,0,0>>
    [] k = "81" -> <<1,0,0,0,0,0,0,1>>

(* table form (the CASE is evaluated once per key) *)
Bits8Tab == [k \in U |-> Bits8(k)]
Bits8T(k) == Bits8Tab[k]

VARIABLES log, hmap, hyps, armed
vars == <<log, hmap, hyps, armed>>

Bulks == UNION { [1..n -> U] : n \in 1..MaxBulk }

Init == log = <<>> /\ hmap = <<>> /\ hyps = <<>> /\ armed = FALSE

AddBulk(b) ==
  /\ ~armed /\ Len(log) + Len(b) <= MaxLen
  /\ log' = log \o b
  /\ hmap' = ApplyBulkMap(hmap, b, Len(log))
  /\ hyps' = hyps \o [i \in 1..Len(b) |-> HRoot(hmap')]
  /\ UNCHANGED armed

Arm == ~armed /\ Len(log) > 0 /\ armed' = TRUE /\ UNCHANGED <<log, hmap, hyps>>

Next == (\E b \in Bulks : AddBulk(b)) \/ Arm
Spec == Init /\ [][Next]_vars

Cur == Len(log) - 1

Wire(an, d) == [exists |-> an.exists, actual |-> an.actual, query |-> an.query, key |-> d,
                hyper |-> an.hyper, history |-> an.history]

Verify(c, d, qv, hv) ==
  IF Pinned THEN DigestVerifyPinned(c, d, Root(log, qv), hyps[hv + 1])
  ELSE DigestVerifyIntended(c, d, Root(log, qv), hyps[hv + 1])

(*----------------------------------------------------------------- C01 ---*)
Complete ==
  armed => \A d \in DOMAIN hmap : \A q \in hmap[d]..Cur :
     LET an == Answer(log, hmap, d, q) IN
     /\ ~an.err /\ an.exists /\ an.actual \in Positions(log, d) /\ an.current = Cur
     /\ Verify(Wire(an, d), d, q, Cur)

SearchTLemma ==
  armed => \A d \in U : HSearchT(hmap, d, HRoot(hmap)) = HSearch(hmap, d)

(* what the hyper tree stores is "last write wins, first occurrence inside a bulk" and every
   stored version really is a position of the digest *)
HyperMapSane ==
  /\ DOMAIN hmap = Range(log)
  /\ \A d \in DOMAIN hmap : hmap[d] \in Positions(log, d)

(*----------------------------------------------------------------- C13 ---*)
(* encoding a genuine answer to the public form and decoding it gives the same verdict, for
   every digest and every snapshot pair, also for queries beyond the current version *)
WireFaithful ==
  armed => \A d \in U : \A q \in 0..(Cur + 2) :
     LET an == Answer(log, hmap, d, q) IN
     ~an.err => \A d2 \in U : \A hv \in 0..Cur : \A yv \in 0..Cur :
        DigestVerifyInProcess(an, d, d2, Root(log, hv), hyps[yv + 1])
          = DigestVerifyIntended(Wire(an, d), d2, Root(log, hv), hyps[yv + 1])

(*----------------------------------------------------------------- C02 ---*)
Genuine == { <<d, q>> \in U \X (0..Cur) : ~Answer(log, hmap, d, q).err }

(* digests the adversary can put into a path: every node of every genuine path, every root *)
KnownTerms ==
  UNION { LET an == Answer(log, hmap, g[1], g[2]) IN
          { an.hyper[k] : k \in DOMAIN an.hyper } \cup { an.history[k] : k \in DOMAIN an.history }
          : g \in Genuine }
  \cup { Root(log, v) : v \in 0..Cur } \cup { hyps[v + 1] : v \in 0..Cur }

FieldEdits(c) ==
  { [c EXCEPT !.exists = x, !.actual = a, !.query = q] :
      <<x, a, q>> \in BOOLEAN \X (0..(Cur + 1)) \X (0..Cur) }

KeyEdits(c)  == { [c EXCEPT !.key = k] : k \in U }
DropEdits(c) ==
  { [c EXCEPT !.history = [x \in DOMAIN c.history \ {k} |-> c.history[x]]] : k \in DOMAIN c.history }
  \cup { [c EXCEPT !.hyper = [x \in DOMAIN c.hyper \ {k} |-> c.hyper[x]]] : k \in DOMAIN c.hyper }
ReplaceEdits(c) ==
  { [c EXCEPT !.history[k] = t] : <<k, t>> \in (DOMAIN c.history) \X KnownTerms }
  \cup { [c EXCEPT !.hyper[k] = t] : <<k, t>> \in (DOMAIN c.hyper) \X KnownTerms }

GenuineWires == { Wire(Answer(log, hmap, g[1], g[2]), g[1]) : g \in Genuine }

(* every combination of the three scalar fields, combined with one more edit of the key or
   one dropped entry; single replaced entries (with and without an absence claim); the history
   part (and optionally its versions) of another genuine answer *)
Candidates ==
  UNION { UNION { {f} \cup KeyEdits(f) \cup DropEdits(f) : f \in FieldEdits(c) } : c \in GenuineWires }
  \cup UNION { ReplaceEdits(c) \cup ReplaceEdits([c EXCEPT !.exists = FALSE]) : c \in GenuineWires }
  \cup { [c1 EXCEPT !.history = c2.history] : <<c1, c2>> \in GenuineWires \X GenuineWires }
  \cup { [c1 EXCEPT !.history = c2.history, !.actual = c2.actual, !.query = c2.query] :
            <<c1, c2>> \in GenuineWires \X GenuineWires }

(* the client asks about digest c.key (the verifier rejects any other) and takes the history
   digest of the version the answer names and the hyper digest of any version it is told is current *)
Sound ==
  armed => \A c \in Candidates : \A hv \in 0..Cur :
     (c.query <= Cur /\ Verify(c, c.key, c.query, hv)) => ClaimTrue(log, c, c.key)

NCandidates == Cardinality(Candidates)
=============================================================================
