------------------------ MODULE Trace_ClientTopology ------------------------
(* Per-transition conformance of the real endpoint selection with ClientTopology.tla: every
   logged step (state before, operation, result, state after) is checked on its own. *)
EXTENDS ClientTopology, Json
CONSTANTS TraceFile
Trace == ndJsonDeserialize(TraceFile)
VARIABLES l, viol
vars == <<l, viol>>
View == l
Tag(p, what) == p \o "|" \o ToString(l) \o "|" \o what
Init == l = 1 /\ viol = {}
Ev == Trace[l]
PrefName(k) == <<"Primary", "PrimaryPreferred", "Secondary", "SecondaryPreferred", "Any">>[k + 1]
St(s) == [eps |-> [i \in 1..Len(s.eps) |-> [url |-> s.eps[i].url, sec |-> s.eps[i].sec, dead |-> s.eps[i].dead]],
          pi |-> s.pi, p |-> (IF s.pi = -1 THEN [url |-> s.p.url, sec |-> s.p.sec, dead |-> s.p.dead] ELSE NoEp),
          cur |-> s.cur, revive |-> s.revive]
Checks(e) ==
  LET B == St(e.before) A == St(e.after) IN
  CASE e.a = "next" ->
         LET r == NextRead(B, e.pref) IN
         (IF e.ok /\ e.idx >= 0 /\ e.idx < Len(B.eps) /\ B.eps[e.idx + 1].dead
          THEN {Tag("C20", "selected an endpoint marked dead (" \o PrefName(e.pref) \o ")")} ELSE {})
         \cup (IF e.ok /\ e.idx \notin MayChoose(B, e.pref)
               THEN {Tag("C20", "selected an endpoint the read preference excludes (" \o PrefName(e.pref) \o ")")} ELSE {})
         \cup (IF ~e.ok /\ MustFind(B, e.pref) # {}
               THEN {Tag("C20", "no endpoint returned although a live permitted one exists (" \o PrefName(e.pref) \o ")")} ELSE {})
         \cup (IF r.ok # e.ok \/ (r.ok /\ r.idx # e.idx) THEN {Tag("D20", "selection differs from the specification's round-robin choice")} ELSE {})
         \cup (IF r.st # A THEN {Tag("D20", "state after selection differs from the specification")} ELSE {})
    [] e.a = "update" ->
         LET U == Update(B, e.p, e.secs) IN
         (IF e.p # "" /\ (A.pi # 0 \/ A.eps[1].url # e.p \/ A.eps[1].dead)
          THEN {Tag("C20", "after an update the believed leader is not the announced one")} ELSE {})
         \cup (IF U # A THEN {Tag("D20", "state after update differs from the specification")} ELSE {})
    [] e.a = "mark" ->
         (IF Mark(B, e.i, e.what) # A THEN {Tag("D20", "state after mark differs from the specification")} ELSE {})
    [] e.a = "primary" ->
         (IF (e.err = "none") # PrimAlive(B) THEN {Tag("C20", "primary lookup disagrees with the dead mark")} ELSE {})
    [] OTHER -> {}
Next == l <= Len(Trace) /\ l' = l + 1 /\ viol' = viol \cup Checks(Ev)
Spec == Init /\ [][Next]_vars
Report == (l = Len(Trace) + 1) => PrintT(<<"VIOL", viol>>)
Accepted == TLCGet("stats").diameter = Len(Trace) + 1
=============================================================================
