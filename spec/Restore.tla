-------------------------------- MODULE Restore --------------------------------
(***************************************************************************)
(* A backup restored into a FRESH node (cmd/restore.go + NewRaftNode with   *)
(* Bootstrap).  The restored store carries the fsm state (applied raft      *)
(* index, last version) of the cluster the backup was taken from; the new   *)
(* node bootstraps a new raft log that starts again at index 1 (a           *)
(* configuration entry and a leader no-op precede the first command).       *)
(* The FSM's replay filter (fsm.go shouldApply) discards an entry whose     *)
(* index is not beyond the applied one.                                     *)
(* ResetIndexOnBootstrap = FALSE is the pinned code (finding F11): every    *)
(* new command is discarded until the new log outgrows the old index.       *)
(***************************************************************************)
EXTENDS Integers, Sequences, TLC

CONSTANTS MaxOldIdx, MaxOldVer, MaxNew, ResetIndexOnBootstrap

VARIABLES idx,       \* persisted applied raft index
          ver,       \* number of events in the store
          raftLast,  \* last index of the new raft log
          added,     \* commands proposed to the new cluster
          applied,   \* commands actually applied
          phase      \* "restored" -> "running"

vars == <<idx, ver, raftLast, added, applied, phase>>

Init == /\ idx \in 0..MaxOldIdx /\ ver \in 0..MaxOldVer /\ (ver = 0 <=> idx = 0) /\ (idx > 0 => idx >= ver + 1)
        /\ raftLast = 0 /\ added = 0 /\ applied = 0 /\ phase = "restored"

(* NewRaftNode on a fresh raft directory: bootstrap configuration + leader no-op *)
Bootstrap == /\ phase = "restored"
             /\ idx' = IF ResetIndexOnBootstrap THEN 0 ELSE idx
             /\ raftLast' = 2
             /\ phase' = "running"
             /\ UNCHANGED <<ver, added, applied>>

ShouldApply(sIdx, eIdx) == ~(sIdx >= eIdx /\ sIdx # 0)

(* a client adds one event: the command is committed at the next index and offered to the FSM *)
Add == /\ phase = "running" /\ added < MaxNew
       /\ raftLast' = raftLast + 1
       /\ added' = added + 1
       /\ IF ShouldApply(idx, raftLast + 1)
          THEN idx' = raftLast + 1 /\ ver' = ver + 1 /\ applied' = applied + 1
          ELSE UNCHANGED <<idx, ver, applied>>
       /\ UNCHANGED phase

Next == Bootstrap \/ Add
Spec == Init /\ [][Next]_vars

(* C16: the restored node continues the version sequence: every accepted event is applied *)
NothingDiscarded == applied = added
(* C16: the restore itself never changes the version *)
VersionKept == [][Bootstrap => ver' = ver]_vars
=============================================================================
