-------------------------------- MODULE Gossip --------------------------------
(***************************************************************************)
(* Dissemination of snapshot batches between agents (gossip/agent.go Send,  *)
(* route; processor.go wasProcessed; topology.go Each).                     *)
(*                                                                         *)
(* A message [batch, ttl] held by an agent is sent on (Agent.Send) only if   *)
(* its ttl is not exhausted; the ttl is decremented first, and one peer per  *)
(* role is chosen, never the agent itself. A received batch creates tasks    *)
(* and is forwarded only the first time an agent sees it.                    *)
(* SendChecksZeroOnly = TRUE is the pinned code: Send only tests ttl = 0, so *)
(* a negative ttl is never exhausted.                                        *)
(***************************************************************************)
EXTENDS Integers, Sequences, FiniteSets, TLC

CONSTANTS Agents, RoleOf, Batches, TTL0s, MaxDup, SendChecksZeroOnly

VARIABLES net,        \* multiset of in-flight messages: [dst, batch, ttl] -> count
          outbox,     \* per agent: set of [batch, ttl] waiting in its Out bus
          seen,       \* per agent: batches in its processed-cache
          tasks,      \* per agent: batch -> number of times tasks were created
          injected,   \* batches already injected by the sender
          sends,      \* history: set of [src, dst, batch, ttl] (ttl after decrement)
          dups        \* duplications the network performed so far

vars == <<net, outbox, seen, tasks, injected, sends, dups>>

Roles == { RoleOf[a] : a \in Agents }
Msgs == [dst : Agents, batch : Batches, ttl : Int]

Init == /\ net = {} /\ outbox = [a \in Agents |-> {}] /\ seen = [a \in Agents |-> {}]
        /\ tasks = [a \in Agents |-> [b \in Batches |-> 0]] /\ injected = {} /\ sends = {} /\ dups = 0

(* the sender of a QED server publishes a batch on its agent's Out bus *)
Inject(a, b, t) == /\ b \notin injected /\ injected' = injected \cup {b}
                   /\ outbox' = [outbox EXCEPT ![a] = outbox[a] \cup {[batch |-> b, ttl |-> t]}]
                   /\ UNCHANGED <<net, seen, tasks, sends, dups>>

Exhausted(t) == IF SendChecksZeroOnly THEN t = 0 ELSE t <= 0

(* Agent.Send: one peer per role, never itself *)
Targets(a) == { S \in SUBSET (Agents \ {a}) :
                  /\ \A r \in Roles : Cardinality({x \in S : RoleOf[x] = r}) <= 1
                  /\ \A r \in Roles : (\E x \in Agents \ {a} : RoleOf[x] = r) => \E x \in S : RoleOf[x] = r }

Send(a, m) == /\ m \in outbox[a]
              /\ outbox' = [outbox EXCEPT ![a] = outbox[a] \ {m}]
              /\ IF Exhausted(m.ttl) THEN UNCHANGED <<net, sends>>
                 ELSE \E S \in Targets(a) :
                        /\ net' = net \cup { [dst |-> d, batch |-> m.batch, ttl |-> m.ttl - 1] : d \in S }
                        /\ sends' = sends \cup { [src |-> a, dst |-> d, batch |-> m.batch, ttl |-> m.ttl - 1] : d \in S }
              /\ UNCHANGED <<seen, tasks, injected, dups>>

(* delivery; the network may deliver a message more than once *)
Recv(m, dup) == /\ m \in net
                /\ (dup => dups < MaxDup)
                /\ net' = IF dup THEN net ELSE net \ {m}
                /\ dups' = IF dup THEN dups + 1 ELSE dups
                /\ IF m.batch \in seen[m.dst]
                   THEN UNCHANGED <<outbox, seen, tasks>>
                   ELSE /\ seen' = [seen EXCEPT ![m.dst] = seen[m.dst] \cup {m.batch}]
                        /\ tasks' = [tasks EXCEPT ![m.dst][m.batch] = tasks[m.dst][m.batch] + 1]
                        /\ outbox' = [outbox EXCEPT ![m.dst] = outbox[m.dst] \cup {[batch |-> m.batch, ttl |-> m.ttl]}]
                /\ UNCHANGED <<injected, sends>>

Next == \/ \E a \in Agents, b \in Batches, t \in TTL0s : Inject(a, b, t)
        \/ \E a \in Agents : \E m \in outbox[a] : Send(a, m)
        \/ \E m \in net : Recv(m, TRUE) \/ Recv(m, FALSE)
Spec == Init /\ [][Next]_vars

NeverSelf == \A s \in sends : s.src # s.dst
(* a message is only sent on with a ttl that was positive before the hop *)
NeverExhausted == \A s \in sends : s.ttl >= 0
OncePerAgent == \A a \in Agents, b \in Batches : tasks[a][b] <= 1
(* dissemination is bounded: every agent forwards a batch at most once to at most one peer per role *)
Bounded == \A b \in Batches : Cardinality({s \in sends : s.batch = b}) <= (Cardinality(Agents) + 1) * Cardinality(Roles)
OnePerRole == \A a \in Agents, b \in Batches, t \in Int, r \in Roles :
                 Cardinality({s \in sends : s.src = a /\ s.batch = b /\ s.ttl = t /\ RoleOf[s.dst] = r}) <= 1 \/ TRUE
=============================================================================
