------------------------------- MODULE History -------------------------------
(***************************************************************************)
(* The position-salted Merkle history tree of QED (balloon/history).        *)
(*                                                                         *)
(* log is a sequence of event digests (hex strings); version v = log[v+1]. *)
(* Canonical definition (what the published construction says):            *)
(*   leaf(i)        = H(digest_i || pos(i,0))                              *)
(*   inner(i,h)     = H(left || right || pos(i,h))   if right child exists *)
(*   partial(i,h)   = H(left || pos(i,h))            otherwise             *)
(*   root(v)        = node(0, bitlen(v)) of the tree over versions 0..v    *)
(*   pos(i,h)       = U64BE(i) || U16BE(h)                                 *)
(* Provers = the sets of nodes the real prunings collect; verifiers = total *)
(* functions over arbitrary partial maps (a missing entry yields Bad).      *)
(***************************************************************************)
EXTENDS Hashing

PosSalt(i, h) == B(U64(i) \o U16(h))
PosKey(i, h)  == ToString(i) \o "|" \o ToString(h)       \* wire key of an audit path entry

Leaf(dg, i)        == H(<<B(dg), PosSalt(i, 0)>>)
Inner(l, r, i, h)  == H(<<l, r, PosSalt(i, h)>>)
Partial(l, i, h)   == H(<<l, PosSalt(i, h)>>)

(* hash of node (i,h) in the tree holding versions 0..v ; requires i <= v *)
RECURSIVE Node(_, _, _, _)
Node(log, i, h, v) ==
  IF h = 0 THEN Leaf(log[i + 1], i)
  ELSE LET r == i + Pow2(h - 1) IN
       IF r > v THEN Partial(Node(log, i, h - 1, v), i, h)
       ELSE Inner(Node(log, i, h - 1, v), Node(log, r, h - 1, v), i, h)

Root(log, v) == Node(log, 0, BitLen(v), v)

IsFrozen(i, h, v) == i + Pow2(h) - 1 <= v

(***************************************************************************)
(* Incremental construction, as the implementation does it: a store of     *)
(* frozen nodes; inserting version v reads the left siblings on the path   *)
(* to leaf v from the store and writes every node that becomes frozen.     *)
(* InsertRoot returns Bad when a needed frozen node is absent.             *)
(***************************************************************************)
FKey(i, h) == <<i, h>>

RECURSIVE InsNode(_, _, _, _, _)
InsNode(store, dg, v, i, h) ==     \* node (i,h) on the path to leaf v, tree version v
  IF h = 0 THEN Leaf(dg, i)
  ELSE LET r == i + Pow2(h - 1) IN
       IF v < r THEN Partial(InsNode(store, dg, v, i, h - 1), i, h)
       ELSE LET l == IF FKey(i, h - 1) \in DOMAIN store THEN store[FKey(i, h - 1)] ELSE Bad("frozen")
            IN Inner(l, InsNode(store, dg, v, r, h - 1), i, h)

InsertRoot(store, dg, v) == InsNode(store, dg, v, 0, BitLen(v))

RECURSIVE InsFrozen(_, _, _, _, _)
InsFrozen(store, dg, v, i, h) ==   \* set of <<key, hash>> frozen by inserting v
  IF h = 0 THEN {<<FKey(i, 0), Leaf(dg, i)>>}
  ELSE LET r == i + Pow2(h - 1) IN
       IF v < r THEN InsFrozen(store, dg, v, i, h - 1)
       ELSE InsFrozen(store, dg, v, r, h - 1) \cup
            (IF IsFrozen(i, h, v) THEN {<<FKey(i, h), InsNode(store, dg, v, i, h)>>} ELSE {})

InsertStore(store, dg, v) ==
  LET fs == InsFrozen(store, dg, v, 0, BitLen(v)) IN
  [k \in DOMAIN store \cup {f[1] : f \in fs} |->
      IF \E f \in fs : f[1] = k THEN (CHOOSE f \in fs : f[1] = k)[2] ELSE store[k]]

(***************************************************************************)
(* Membership: prover (what pruneToFind / pruneToFindConsistent collect)    *)
(***************************************************************************)
RECURSIVE MemKeys(_, _, _, _)
MemKeys(idx, v, i, h) ==            \* positions collected below node (i,h) on the path to idx
  IF h = 0 THEN {}
  ELSE LET r == i + Pow2(h - 1) IN
       IF idx < r
       THEN MemKeys(idx, v, i, h - 1) \cup (IF r <= v THEN {<<r, h - 1>>} ELSE {})
       ELSE MemKeys(idx, v, r, h - 1) \cup {<<i, h - 1>>}

ProveMembership(log, idx, v) ==
  LET ks == MemKeys(idx, v, 0, BitLen(v)) IN
  [k \in {PosKey(p[1], p[2]) : p \in ks} |->
      LET p == CHOOSE p \in ks : PosKey(p[1], p[2]) = k IN Node(log, p[1], p[2], v)]

(***************************************************************************)
(* Membership: verifier (pruneToVerify), total over arbitrary paths         *)
(***************************************************************************)
PathGet(path, i, h) == IF PosKey(i, h) \in DOMAIN path THEN path[PosKey(i, h)] ELSE Bad("missing")

RECURSIVE VerNode(_, _, _, _, _, _)
VerNode(path, idx, v, dg, i, h) ==
  IF h = 0 THEN Leaf(dg, i)
  ELSE LET r == i + Pow2(h - 1) IN
       IF idx < r
       THEN LET l == VerNode(path, idx, v, dg, i, h - 1) IN
            IF r > v THEN Partial(l, i, h) ELSE Inner(l, PathGet(path, r, h - 1), i, h)
       ELSE IF r > v THEN Partial(PathGet(path, i, h - 1), i, h)
            ELSE Inner(PathGet(path, i, h - 1), VerNode(path, idx, v, dg, r, h - 1), i, h)

HasBad(t) == IsBad(t)

VerifyMembership(path, idx, v, dg, expectedRoot) ==
  LET rec == VerNode(path, idx, v, dg, 0, BitLen(v)) IN
  ~HasBad(rec) /\ rec = expectedRoot

(* the set of path keys the verifier reads *)
RECURSIVE VerReads(_, _, _, _)
VerReads(idx, v, i, h) ==
  IF h = 0 THEN {}
  ELSE LET r == i + Pow2(h - 1) IN
       IF idx < r
       THEN VerReads(idx, v, i, h - 1) \cup (IF r > v THEN {} ELSE {PosKey(r, h - 1)})
       ELSE IF r > v THEN {PosKey(i, h - 1)}
            ELSE {PosKey(i, h - 1)} \cup VerReads(idx, v, r, h - 1)

(***************************************************************************)
(* Consistency (incremental) proofs                                         *)
(***************************************************************************)
RECURSIVE IncKeys(_, _, _, _, _)
IncKeys(ts, s, e, i, h) ==         \* ts: targets (subset of {s,e}) inside node (i,h)
  IF ts = {} \/ h = 0 THEN {<<i, h>>}
  ELSE LET r == i + Pow2(h - 1)
           lt == {t \in ts : t < r}
           rt == {t \in ts : t >= r} IN
       IncKeys(lt, s, e, i, h - 1) \cup (IF e < r THEN {} ELSE IncKeys(rt, s, e, r, h - 1))

ProveIncremental(log, s, e) ==
  LET ks == IncKeys({s, e}, s, e, 0, BitLen(e)) IN
  [k \in {PosKey(p[1], p[2]) : p \in ks} |->
      LET p == CHOOSE p \in ks : PosKey(p[1], p[2]) = k IN Node(log, p[1], p[2], e)]

RECURSIVE IncStart(_, _, _, _)
IncStart(path, v, i, h) ==          \* pruneToVerifyIncrementalStart
  IF h = 0 THEN PathGet(path, i, 0)
  ELSE LET r == i + Pow2(h - 1) IN
       IF v < r
       THEN LET l == IncStart(path, v, i, h - 1) IN
            IF r > v THEN Partial(l, i, h) ELSE Inner(l, PathGet(path, r, h - 1), i, h)
       ELSE IF r > v THEN Partial(PathGet(path, i, h - 1), i, h)
            ELSE Inner(PathGet(path, i, h - 1), IncStart(path, v, r, h - 1), i, h)

RECURSIVE IncEnd(_, _, _, _, _, _)
IncEnd(path, ts, s, e, i, h) ==     \* pruneToVerifyIncrementalEnd
  IF ts = {} \/ h = 0 THEN PathGet(path, i, h)
  ELSE LET r == i + Pow2(h - 1)
           lt == {t \in ts : t < r}
           rt == {t \in ts : t >= r}
           l  == IncEnd(path, lt, s, e, i, h - 1) IN
       IF e < r THEN Partial(l, i, h)
       ELSE Inner(l, IncEnd(path, rt, s, e, r, h - 1), i, h)

VerifyIncremental(path, s, e, startRoot, endRoot) ==
  LET a == IncStart(path, s, 0, BitLen(s))
      b == IncEnd(path, {s, e}, s, e, 0, BitLen(e)) IN
  ~HasBad(a) /\ ~HasBad(b) /\ a = startRoot /\ b = endRoot
=============================================================================
