------------------------------- MODULE Balloon -------------------------------
(***************************************************************************)
(* The balloon: history tree + hyper tree over one log of event digests.   *)
(*                                                                         *)
(* log   : sequence of digests (hex strings); version v is log[v+1]         *)
(* hmap  : digest -> version as held by the hyper tree.  Single adds: last  *)
(*         write wins.  Inside one bulk the FIRST occurrence of a digest    *)
(*         wins (insert_bulk.go InsertSorted keeps the earlier leaf), and   *)
(*         the bulk overwrites older entries.                               *)
(***************************************************************************)
EXTENDS History, Hyper

Range(s) == { s[i] : i \in 1..Len(s) }

FirstIdx(bulk, k) == CHOOSE i \in 1..Len(bulk) : bulk[i] = k /\ \A j \in 1..(i - 1) : bulk[j] # k

(* effect of AddBulk(bulk) when the log holds v0 events *)
ApplyBulkMap(hmap, bulk, v0) ==
  [k \in DOMAIN hmap \cup Range(bulk) |->
      IF k \in Range(bulk) THEN v0 + FirstIdx(bulk, k) - 1 ELSE hmap[k]]

Snapshot(log, hmapAfter, v) ==
  [version |-> v, event |-> log[v + 1], history |-> Root(log, v), hyper |-> HRoot(hmapAfter)]

Positions(log, d) == { i \in 0..(Len(log) - 1) : log[i + 1] = d }

(***************************************************************************)
(* Honest answer to a membership query for digest d at version q            *)
(* (QueryDigestMembershipConsistency; q = current for QueryDigestMembership)*)
(***************************************************************************)
AnswerWith(log, hmap, d, q, sr) ==
  LET cur == Len(log) - 1
      qv  == Min(q, cur) IN
  IF sr.value = NoValue
  (* query: the version the proof is computed for (a query beyond the current version is
     answered at the current one; since fix a-qv the answer says so). hidx/hver: index and
     version of the in-process history proof, which the wire form does not carry *)
  THEN [err |-> FALSE, exists |-> FALSE, actual |-> qv, query |-> qv, current |-> cur,
        hyper |-> sr.path, history |-> <<>>, hasHistory |-> FALSE, hidx |-> qv, hver |-> qv]
  ELSE IF sr.value <= qv
       THEN [err |-> FALSE, exists |-> TRUE, actual |-> sr.value, query |-> qv, current |-> cur,
             hyper |-> sr.path, history |-> ProveMembership(log, sr.value, qv), hasHistory |-> TRUE,
             hidx |-> sr.value, hver |-> qv]
       ELSE [err |-> TRUE]

Answer(log, hmap, d, q) == AnswerWith(log, hmap, d, q, HSearch(hmap, d))
(* same, reusing an already computed hyper root *)
AnswerT(log, hmap, hroot, d, q) == AnswerWith(log, hmap, d, q, HSearchT(hmap, d, hroot))

(***************************************************************************)
(* Client-side verification of a wire answer.                               *)
(* Intended (and, since the fix commit 2cea738, implemented): an accepted     *)
(* answer must claim existence with actual <= query, and BOTH trees must     *)
(* bind it.                                                                  *)
(* Pinned (balloon.DigestVerify at the pinned commit 7fd0de2): the history    *)
(* check was skipped when Exists is false or actual > query; MC_Balloon       *)
(* shows that this variant accepts false claims.                              *)
(***************************************************************************)
DigestVerifyIntended(a, d, histRoot, hyperRoot) ==
  /\ a.exists
  /\ a.actual <= a.query
  /\ HVerify(a.hyper, a.key, d, a.actual, hyperRoot)
  /\ VerifyMembership(a.history, a.actual, a.query, d, histRoot)

DigestVerifyPinned(a, d, histRoot, hyperRoot) ==
  LET hy == HVerify(a.hyper, a.key, d, a.actual, hyperRoot) IN
  IF a.exists /\ a.actual <= a.query
  THEN hy /\ VerifyMembership(a.history, a.actual, a.query, d, histRoot)
  ELSE hy

(***************************************************************************)
(* The public wire form (protocol.MembershipResult) drops the history       *)
(* proof's own index/version and the hyper value; ToBalloonProof rebuilds    *)
(* them from ActualVersion / QueryVersion.  In-process verification uses     *)
(* the proof's own fields.                                                   *)
(***************************************************************************)
DigestVerifyInProcess(an, key, d, histRoot, hyperRoot) ==
  /\ an.exists /\ an.actual <= an.query
  /\ HVerify(an.hyper, key, d, an.actual, hyperRoot)
  /\ VerifyMembership(an.history, an.hidx, an.hver, d, histRoot)

(* ground truth of the claim an accepted answer makes *)
ClaimTrue(log, a, d) ==
  /\ a.exists
  /\ a.actual <= a.query
  /\ a.actual < Len(log)
  /\ log[a.actual + 1] = d
=============================================================================
