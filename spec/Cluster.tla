------------------------------- MODULE Cluster -------------------------------
(***************************************************************************)
(* QED as a replicated, crash-prone state machine (consensus/fsm.go,        *)
(* cluster.go, snapshot.go, backup.go; storage/rocks).                      *)
(*                                                                         *)
(* hashicorp/raft is trusted for agreement: there is ONE committed log      *)
(* `clog` (entries: client commands carrying a bulk of event digests, and   *)
(* raft's own no-op / configuration entries, which occupy indexes).         *)
(* Each node applies committed entries in index order through the FSM:      *)
(*                                                                         *)
(*   ApplyCompute   Apply(): replay filter (shouldApply), then              *)
(*                  balloon.AddBulk: version counter and in-memory caches   *)
(*                  (hyper batch cache, history write cache) advance         *)
(*   ApplyPersist   db.Mutate: ONE atomic write batch holding the tree      *)
(*                  mutations, the fsm state (raft index, last version) and *)
(*                  the (previous, new) version metadata in the WAL          *)
(*   Crash/Restart  volatile state is lost at any point, in particular      *)
(*                  between the two; restart reloads fsm state, recovers    *)
(*                  the version from the last history leaf, rebuilds the    *)
(*                  hyper cache, and raft replays its log from the last     *)
(*                  raft snapshot                                            *)
(*   TakeSnapshot   raft snapshot = (WAL sequence number, version);         *)
(*                  allows log compaction                                    *)
(*   InstallSnapshot a node too far behind (or new) gets the WAL batches    *)
(*                  newer than its version from a peer (gap => refused),     *)
(*                  then reloads fsm state and version                       *)
(*   Backup/RestoreBackup                                                    *)
(*                                                                         *)
(* The store content of a node is a function of the sequence of events it   *)
(* has persisted (C04), so `dur[n].events` stands for all four tables.      *)
(* Deviations of the code from the intended design are named constants.    *)
(***************************************************************************)
EXTENDS Integers, Sequences, FiniteSets, TLC, SequencesExt

CONSTANTS Nodes,            \* replica ids
          Events,           \* event digests clients may add
          MaxLog,           \* bound on committed entries
          MaxBulk,
          MaxCrashes, MaxSnapshots, MaxBackups, MaxWipes,
          TransferWritesWAL,       \* TRUE = as built: LoadSnapshot journals the transferred batches like its own writes
          RebuildCacheOnRestore,   \* TRUE = intended; FALSE = pinned code (fsm.go Restore, finding F6)
          BackupExcludesApply,     \* TRUE = intended; FALSE = pinned code: CreateBackup reads the version counter mid-apply
          QueryExcludesApply       \* TRUE = intended; FALSE = pinned code: queries run between compute and persist (F5)

VARIABLES clog,      \* committed log
          up,        \* node is running
          dur,       \* durable store per node: [idx, bver, events, wal]
          mem,       \* volatile: [version, cache, pc, pend]
          rapplied,  \* raft's last applied index (volatile)
          rsnap,     \* raft snapshot index (durable; 0 = none)
          lstart,    \* first index still present in the node's raft log
          acked,     \* snapshots acknowledged to clients: seq of [version, event]
          backups,   \* set of [id, node, version, events]
          replies,   \* last query reply (observation only)
          budget     \* remaining fault budget [crash, snap, backup, wipe]

vars == <<clog, up, dur, mem, rapplied, rsnap, lstart, acked, backups, replies, budget>>

Cmd(b)  == [k |-> "cmd", bulk |-> b]
NoOpE   == [k |-> "noop", bulk |-> <<>>]

(* all events of committed commands, in order = what a fully applied replica holds *)
RECURSIVE FlatUpTo(_, _)
FlatUpTo(lg, i) == IF i = 0 THEN <<>> ELSE FlatUpTo(lg, i - 1) \o lg[i].bulk
Flat(lg) == FlatUpTo(lg, Len(lg))

EmptyDur == [idx |-> 0, bver |-> 0, events |-> <<>>, wal |-> <<>>]
FreshMem(d) == [version |-> Len(d.events), cache |-> Len(d.events), pc |-> "idle", pend |-> 0]

Init ==
  /\ clog = <<>>
  /\ up = [n \in Nodes |-> TRUE]
  /\ dur = [n \in Nodes |-> EmptyDur]
  /\ mem = [n \in Nodes |-> FreshMem(EmptyDur)]
  /\ rapplied = [n \in Nodes |-> 0]
  /\ rsnap = [n \in Nodes |-> 0]
  /\ lstart = [n \in Nodes |-> 1]
  /\ acked = <<>>
  /\ backups = {}
  /\ replies = <<>>
  /\ budget = [crash |-> MaxCrashes, snap |-> MaxSnapshots, backup |-> MaxBackups, wipe |-> MaxWipes]

Bulks == UNION { [1..k -> Events] : k \in 1..MaxBulk }

(* a client's bulk, or a raft-internal entry, is committed (raft trusted) *)
Propose(b) ==
  /\ Len(clog) < MaxLog
  /\ \E n \in Nodes : up[n]
  /\ clog' = Append(clog, Cmd(b))
  /\ UNCHANGED <<up, dur, mem, rapplied, rsnap, lstart, acked, backups, replies, budget>>

RaftInternal ==
  /\ Len(clog) < MaxLog
  /\ clog' = Append(clog, NoOpE)
  /\ UNCHANGED <<up, dur, mem, rapplied, rsnap, lstart, acked, backups, replies, budget>>

(* fsm.go shouldApply: an entry whose index is not beyond the persisted one is skipped *)
ShouldApply(d, idx) == ~(d.idx >= idx /\ d.idx # 0)

(* the code panics if the version would not advance (double apply detected too late) *)
VersionPanic(d, newBver) == newBver > 0 /\ d.bver >= newBver

ApplyCompute(n) ==
  /\ up[n] /\ mem[n].pc = "idle"
  /\ rapplied[n] < Len(clog)
  (* the entry is still in the raft log of some running node (raft replicates it) *)
  /\ \E p \in Nodes : up[p] /\ lstart[p] <= rapplied[n] + 1 /\ (p = n \/ rapplied[p] >= rapplied[n] + 1 \/ rsnap[p] = 0)
  /\ LET idx == rapplied[n] + 1
         e   == clog[idx] IN
     IF e.k = "noop" \/ ~ShouldApply(dur[n], idx)
     THEN /\ rapplied' = [rapplied EXCEPT ![n] = idx]
          /\ UNCHANGED mem
     ELSE /\ mem' = [mem EXCEPT ![n] = [version |-> mem[n].version + Len(e.bulk),
                                        cache |-> mem[n].cache + Len(e.bulk),
                                        pc |-> "computed", pend |-> idx]]
          /\ UNCHANGED rapplied
  /\ UNCHANGED <<clog, up, dur, rsnap, lstart, acked, backups, replies, budget>>

ApplyPersist(n) ==
  /\ up[n] /\ mem[n].pc = "computed"
  /\ LET idx == mem[n].pend
         e   == clog[idx]
         v0  == mem[n].version - Len(e.bulk)          \* first version assigned to this bulk
         d2  == [idx |-> idx, bver |-> mem[n].version - 1,
                 events |-> dur[n].events \o e.bulk,
                 wal |-> Append(dur[n].wal, [prev |-> dur[n].bver, new |-> mem[n].version - 1, bulk |-> e.bulk, idx |-> idx])] IN
     /\ dur' = [dur EXCEPT ![n] = d2]
     /\ mem' = [mem EXCEPT ![n].pc = "idle", ![n].pend = 0]
     /\ rapplied' = [rapplied EXCEPT ![n] = idx]
     (* the node where the client is connected (the most advanced one) acknowledges *)
     /\ acked' = IF \A p \in Nodes : dur[p].idx < idx
                 THEN acked \o [i \in 1..Len(e.bulk) |-> [version |-> v0 + i - 1, event |-> e.bulk[i]]]
                 ELSE acked
  /\ UNCHANGED <<clog, up, rsnap, lstart, backups, replies, budget>>

Crash(n) ==
  /\ up[n] /\ budget.crash > 0
  /\ up' = [up EXCEPT ![n] = FALSE]
  /\ budget' = [budget EXCEPT !.crash = budget.crash - 1]
  /\ UNCHANGED <<clog, dur, mem, rapplied, rsnap, lstart, acked, backups, replies>>

(* restart: fsm state reloaded, version from the last history leaf, caches rebuilt from the
   store, raft restores its snapshot (a no-op on the data at start-up) and replays its log *)
Restart(n) ==
  /\ ~up[n]
  /\ up' = [up EXCEPT ![n] = TRUE]
  /\ mem' = [mem EXCEPT ![n] = FreshMem(dur[n])]
  /\ rapplied' = [rapplied EXCEPT ![n] = rsnap[n]]
  /\ UNCHANGED <<clog, dur, rsnap, lstart, acked, backups, replies, budget>>

(* the disk of a stopped node is replaced: it comes back holding nothing (same identity), and is
   brought up to date by log replay or by state transfer from whoever leads *)
Wipe(n) ==
  /\ ~up[n] /\ budget.wipe > 0
  (* raft's fault model: what this node held is also held by another one (a committed entry
     is on a majority), so nothing acknowledged is lost with the disk *)
  /\ \E p \in Nodes \ {n} : dur[p].idx >= dur[n].idx
  /\ dur' = [dur EXCEPT ![n] = EmptyDur]
  /\ rsnap' = [rsnap EXCEPT ![n] = 0]
  /\ lstart' = [lstart EXCEPT ![n] = 1]
  /\ rapplied' = [rapplied EXCEPT ![n] = 0]
  /\ budget' = [budget EXCEPT !.wipe = budget.wipe - 1]
  /\ UNCHANGED <<clog, up, mem, acked, backups, replies>>

(* raft snapshot + log compaction on a running idle node *)
TakeSnapshot(n) ==
  /\ up[n] /\ mem[n].pc = "idle" /\ budget.snap > 0 /\ rapplied[n] > rsnap[n]
  /\ rsnap' = [rsnap EXCEPT ![n] = rapplied[n]]
  /\ lstart' = [lstart EXCEPT ![n] = rapplied[n] + 1]
  /\ budget' = [budget EXCEPT !.snap = budget.snap - 1]
  /\ UNCHANGED <<clog, up, dur, mem, rapplied, acked, backups, replies>>

(* WAL batches a peer ships to a node whose last version is bver (FetchSnapshot validateF) *)
RECURSIVE Ship(_, _, _)
Ship(wal, last, isEmpty) ==       \* -> [ok, batches]
  IF wal = <<>> THEN [ok |-> TRUE, batches |-> <<>>]
  ELSE LET b == Head(wal) IN
       IF b.prev > last THEN [ok |-> FALSE, batches |-> <<>>]                 \* gap: refused
       ELSE IF b.new < last \/ (b.new = last /\ last # 0)
            THEN Ship(Tail(wal), last, isEmpty)                               \* already there
            ELSE LET r == Ship(Tail(wal), b.new, FALSE) IN
                 [ok |-> r.ok, batches |-> <<b>> \o r.batches]

(* LoadSnapshot writes the shipped key/value batches into the store.  A batch that ends exactly
   where the store already is rewrites the same keys with the same values (idempotent: validateF
   cannot tell "nothing applied" from "version 0 applied", so that batch is shipped again); a
   batch that ends below the store's version would overwrite newer tiles with older ones. *)
RECURSIVE LoadBatches(_, _)
LoadBatches(evs, bs) ==
  IF bs = <<>> THEN evs
  ELSE LET b == Head(bs) IN
       IF b.new = Len(evs) - 1 /\ Len(b.bulk) <= Len(evs) /\ SubSeq(evs, Len(evs) - Len(b.bulk) + 1, Len(evs)) = b.bulk
       THEN LoadBatches(evs, Tail(bs))
       ELSE IF b.new - Len(b.bulk) + 1 = Len(evs) THEN LoadBatches(evs \o b.bulk, Tail(bs))
       ELSE <<"CORRUPT">>

(* state transfer: node n is behind the compaction point of every running peer *)
InstallSnapshot(p, n) ==
  /\ p # n /\ up[p] /\ up[n] /\ mem[n].pc = "idle" /\ mem[p].pc = "idle"
  /\ rsnap[p] > 0 /\ rapplied[n] + 1 < lstart[p]
  /\ LET s == Ship(dur[p].wal, dur[n].bver, dur[n].events = <<>>) IN
     /\ s.ok                                       \* otherwise the restore fails and nothing changes
     /\ LET evs == LoadBatches(dur[n].events, s.batches)
            lastB == IF s.batches = <<>> THEN [idx |-> dur[n].idx, new |-> dur[n].bver] ELSE s.batches[Len(s.batches)]
            d2 == [idx |-> lastB.idx, bver |-> lastB.new, events |-> evs,
                   wal |-> IF TransferWritesWAL THEN dur[n].wal \o s.batches ELSE dur[n].wal] IN
        /\ dur' = [dur EXCEPT ![n] = d2]
        /\ mem' = [mem EXCEPT ![n] = [version |-> Len(evs),
                                      cache |-> IF RebuildCacheOnRestore THEN Len(evs) ELSE mem[n].cache,
                                      pc |-> "idle", pend |-> 0]]
  /\ rapplied' = [rapplied EXCEPT ![n] = rsnap[p]]
  /\ rsnap' = [rsnap EXCEPT ![n] = rsnap[p]]
  /\ lstart' = [lstart EXCEPT ![n] = rsnap[p] + 1]
  /\ UNCHANGED <<clog, up, acked, backups, replies, budget>>

(* every idle running node can bring any node that holds a prefix of its events up to date from
   its own WAL: no gap, whatever mixture of own insertions and received transfers built its store
   (fails for TransferWritesWAL = FALSE: a node that was itself restored by transfer, later
   leading, refuses a wiped or new follower for ever) *)
WalServesEveryone ==
  \A p \in Nodes, n \in Nodes :
     (p # n /\ up[p] /\ mem[p].pc = "idle" /\ Len(dur[n].events) <= Len(dur[p].events))
        => Ship(dur[p].wal, dur[n].bver, dur[n].events = <<>>).ok

(* a backup records the version of the PERSISTED state and captures the store *)
Backup(n) ==
  /\ up[n] /\ budget.backup > 0 /\ (BackupExcludesApply => mem[n].pc = "idle")
  /\ backups' = backups \cup {[id |-> Cardinality(backups) + 1, node |-> n,
                               version |-> Len(dur[n].events) - 1, claimed |-> mem[n].version - 1,
                               events |-> dur[n].events]}
  /\ budget' = [budget EXCEPT !.backup = budget.backup - 1]
  /\ UNCHANGED <<clog, up, dur, mem, rapplied, rsnap, lstart, acked, replies>>

(* a query on node n: membership of event e / consistency, answered from the node's state.
   Intended: excluded while an insertion is between compute and persist (or served from
   one consistent version).  Pinned code: hyper part from the (already advanced) cache and
   version counter, history part from the store. *)
Query(n) ==
  /\ up[n] /\ (QueryExcludesApply => mem[n].pc = "idle")
  /\ replies' = [node |-> n, current |-> mem[n].version - 1, hyperOf |-> mem[n].cache,
                 historyOf |-> Len(dur[n].events)]
  /\ UNCHANGED <<clog, up, dur, mem, rapplied, rsnap, lstart, acked, backups, budget>>

Next ==
  \/ \E b \in Bulks : Propose(b)
  \/ RaftInternal
  \/ \E n \in Nodes : \/ ApplyCompute(n) \/ ApplyPersist(n)
                      \/ Crash(n) \/ Restart(n) \/ Wipe(n) \/ TakeSnapshot(n) \/ Backup(n) \/ Query(n)
  \/ \E p \in Nodes, n \in Nodes : InstallSnapshot(p, n)

Fairness == \A n \in Nodes : WF_vars(ApplyCompute(n)) /\ WF_vars(ApplyPersist(n)) /\ WF_vars(Restart(n))

Spec == Init /\ [][Next]_vars
FairSpec == Spec /\ Fairness

(*--------------------------------------------------------------- properties *)
Prefix(a, b) == Len(a) <= Len(b) /\ SubSeq(b, 1, Len(a)) = a

(* C07: whatever happened, a node's durable state is the result of applying a prefix of
   the committed log exactly once *)
DurableIsPrefix == \A n \in Nodes : \E i \in 0..Len(clog) :
                      /\ dur[n].events = FlatUpTo(clog, i)
                      /\ (dur[n].idx = 0 \/ dur[n].idx <= i)
                      /\ (dur[n].events # <<>> => dur[n].bver = Len(dur[n].events) - 1)

(* C05: acknowledged versions are 0,1,2,... without gap or repeat, each for its event *)
AckedDense == \A i \in 1..Len(acked) : acked[i].version = i - 1 /\ acked[i].event = Flat(clog)[i]

(* C05: the in-memory version counter is the number of events computed so far *)
VersionCounter == \A n \in Nodes : up[n] =>
   mem[n].version = Len(dur[n].events) + (IF mem[n].pc = "computed" THEN Len(clog[mem[n].pend].bulk) ELSE 0)

(* C06: equal applied index => equal stores *)
ReplicasAgree == \A a \in Nodes, b \in Nodes : dur[a].idx = dur[b].idx => dur[a].events = dur[b].events

(* C07/C05: the code's late double-apply detection never fires *)
NoVersionPanic == \A n \in Nodes : (up[n] /\ mem[n].pc = "computed") => ~VersionPanic(dur[n], mem[n].version - 1)

(* C08/C09: an idle node's caches reflect exactly its store *)
CacheCoherent == \A n \in Nodes : (up[n] /\ mem[n].pc = "idle") => mem[n].cache = Len(dur[n].events)

(* C10: a reply is computed from ONE version of the log *)
QueryConsistent == replies # <<>> => (replies.hyperOf = replies.historyOf /\ replies.current = replies.historyOf - 1)

(* C16: a backup records the version of what it captured *)
BackupExact == \A b \in backups : b.claimed = b.version /\ \E i \in 0..Len(clog) : b.events = FlatUpTo(clog, i)

(* C07 action property: durable state only ever grows by whole committed bulks *)
AppendOnly == [][\A n \in Nodes : (~up[n] /\ dur'[n] = EmptyDur) \/ (Prefix(dur[n].events, dur'[n].events) /\ dur'[n].idx >= dur[n].idx)]_vars

(* C07 liveness: every running node eventually holds everything committed *)
Converges == \A n \in Nodes : <>[](up[n] => dur[n].events = Flat(clog))
=============================================================================
