-------------------------------- MODULE Client --------------------------------
(***************************************************************************)
(* The call loops of client.HTTPClient (client/client.go callPrimary,       *)
(* callAny, discover, clusterHealthCheck, doReq) over the endpoint          *)
(* selection of ClientTopology.tla, against servers that may answer every   *)
(* single request in any way (ok, 4xx, 5xx / connection error, and for       *)
(* /info/shards any topology).  One call is explored at a time, from every   *)
(* reachable topology state.                                                 *)
(*                                                                         *)
(* C20 (termination): every call ends, after at most Bound requests.         *)
(* DiscoverMarksDead = FALSE is the pinned code (finding F9b): discover()     *)
(* asks the same node again and again when it answers with an error that     *)
(* does not mark it dead (4xx).                                              *)
(***************************************************************************)
EXTENDS ClientTopology

CONSTANTS Urls, Health, Discovery, Prefs, DiscoverMarksDead, Bound

VARIABLES P,      \* topology (ClientTopology state)
          pc,     \* "idle" | "primary" | "any" | "done"
          hRetried, dRetried, aRetried,   \* the one-shot retry flags of the loops
          nreq,   \* requests sent during the current call
          pref    \* read preference of the current call

vars == <<P, pc, hRetried, dRetried, aRetried, nreq, pref>>

Outcomes == {"ok", "e4xx", "dead"}      \* answer; client error (endpoint stays alive); transport error / 5xx (endpoint marked dead)

SecLists == {<<>>} \cup { <<x>> : x \in Urls } \cup { <<q[1], q[2]>> : q \in { z \in Urls \X Urls : z[1] # z[2] } }
Topologies == { <<p, us>> \in (Urls \cup {""}) \X SecLists : TRUE }

Init == /\ P \in { Update(Empty(r), t[1], t[2]) : r \in BOOLEAN, t \in { x \in Topologies : x[1] # "" } }
        /\ pc = "idle" /\ hRetried = FALSE /\ dRetried = FALSE /\ aRetried = FALSE /\ nreq = 0 /\ pref = 4

MarkIdx(Q, i, d) == Mark(Q, i, IF d THEN "dead" ELSE "alive")

(* clusterHealthCheck: one HEAD per listed endpoint, each may answer or not *)
HealthChecked(Q) ==
  { [Q EXCEPT !.eps = [i \in 1..Len(Q.eps) |-> [Q.eps[i] EXCEPT !.dead = f[i]]]] : f \in [1..Len(Q.eps) -> BOOLEAN] }

(* discover(): ask live endpoints for the topology until one answers.  Returns the set of
   possible results [st, ok, n] (n = requests sent); a run that exceeds the bound is cut off
   with n = Bound + 1 so that non-termination shows up as a violated bound. *)
RECURSIVE Discovered(_, _)
Discovered(Q, n) ==
  IF n > Bound THEN {[st |-> Q, ok |-> FALSE, n |-> n]}
  ELSE LET r == NextRead(Q, 4) IN
       IF ~r.ok THEN {[st |-> r.st, ok |-> FALSE, n |-> n]}
       ELSE UNION { CASE o = "ok" -> { [st |-> Update(r.st, t[1], t[2]), ok |-> TRUE, n |-> n + 1] : t \in Topologies }
                      [] o = "dead" -> Discovered(MarkIdx(r.st, r.idx, TRUE), n + 1)
                      [] o = "e4xx" -> Discovered(IF DiscoverMarksDead THEN MarkIdx(r.st, r.idx, TRUE) ELSE r.st, n + 1)
                    : o \in Outcomes }

StartCall == /\ pc = "idle"
             /\ pc' \in {"primary", "any"}
             /\ hRetried' = FALSE /\ dRetried' = FALSE /\ aRetried' = FALSE /\ nreq' = 0
             /\ pref' \in Prefs
             /\ UNCHANGED P

(* one iteration of the callPrimary loop *)
StepPrimary ==
  /\ pc = "primary"
  /\ LET noPrim == ~HasPrim(P)
         pdead  == HasPrim(P) /\ PrimObj(P).dead IN
     IF pdead /\ Health /\ ~hRetried
     THEN /\ P' \in HealthChecked(P) /\ hRetried' = TRUE /\ nreq' = nreq + Len(P.eps)
          /\ UNCHANGED <<pc, dRetried, aRetried, pref>>
     ELSE IF noPrim \/ pdead
     THEN IF Discovery /\ ~dRetried
          THEN \E d \in Discovered(P, 0) :
                 /\ P' = d.st /\ dRetried' = TRUE /\ hRetried' = TRUE /\ nreq' = nreq + d.n
                 /\ pc' = IF d.ok THEN "primary" ELSE "done"
                 /\ UNCHANGED <<aRetried, pref>>
          ELSE /\ pc' = "done" /\ UNCHANGED <<P, hRetried, dRetried, aRetried, nreq, pref>>
     ELSE \E o \in Outcomes :        \* doReq on the primary
            /\ P' = IF o = "dead" THEN MarkIdx(P, -1, TRUE) ELSE IF o = "ok" THEN MarkIdx(P, -1, FALSE) ELSE P
            /\ nreq' = nreq + 1 /\ pc' = "done"
            /\ UNCHANGED <<hRetried, dRetried, aRetried, pref>>

(* one iteration of the callAny loop *)
StepAny ==
  /\ pc = "any"
  /\ LET r == NextRead(P, pref) IN
     IF ~r.ok
     THEN IF ~aRetried /\ Discovery
          THEN \E d \in Discovered(r.st, 0) :
                 /\ P' = d.st /\ aRetried' = TRUE /\ nreq' = nreq + d.n /\ UNCHANGED <<pc, hRetried, dRetried, pref>>
          ELSE /\ P' = r.st /\ pc' = "done" /\ UNCHANGED <<hRetried, dRetried, aRetried, nreq, pref>>
     ELSE \E o \in Outcomes :
            /\ nreq' = nreq + 1
            /\ IF o = "ok" THEN P' = MarkIdx(r.st, r.idx, FALSE) /\ pc' = "done"
               ELSE P' = MarkIdx(r.st, r.idx, TRUE) /\ pc' = "any"       \* callAny marks the endpoint dead on ANY error
            /\ UNCHANGED <<hRetried, dRetried, aRetried, pref>>

Finish == pc = "done" /\ pc' = "idle" /\ UNCHANGED <<P, hRetried, dRetried, aRetried, nreq, pref>>

Next == StartCall \/ StepPrimary \/ StepAny \/ Finish
Spec == Init /\ [][Next]_vars

(* C20: bounded number of requests per call (hence termination: the loops have no other exit) *)
BoundedCall == nreq <= Bound
(* C20: a write is only ever sent to the primary object (callPrimary never uses NextRead) - by construction *)
=============================================================================
