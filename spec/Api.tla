--------------------------------- MODULE Api ---------------------------------
(***************************************************************************)
(* The HTTP interface of a QED node (api/apihttp, api/mgmthttp) as a       *)
(* function from request classes to response classes and state effects.    *)
(*                                                                         *)
(* A request is [mux, method, path, shape, valid]; `valid` is the number   *)
(* of events a WELL-FORMED add request carries (0 for everything else).    *)
(* The specification is deliberately weak on which 4xx/5xx code is used    *)
(* and strong on what the property is about:                               *)
(*   - every request gets an HTTP response (never a dropped connection),   *)
(*   - the process survives and keeps serving correct answers,              *)
(*   - only a well-formed, non-empty add extends the log, by exactly the   *)
(*     number of events it carries (everything replicated is applicable),  *)
(*   - a request that is not a valid add never answers 2xx on an add path  *)
(*     and a valid add on the leader answers 2xx.                           *)
(***************************************************************************)
EXTENDS Integers, Sequences, TLC

Classes == {"2xx", "3xx", "4xx", "5xx"}

ApiPaths  == {"/healthcheck", "/events", "/events/bulk", "/proofs/membership", "/proofs/digest-membership",
              "/proofs/incremental", "/info", "/info/shards"}
AddPaths  == {"/events", "/events/bulk"}

IsValidAdd(r) == r.valid > 0 /\ r.method = "POST" /\ r.mux = "api" /\ r.path \in AddPaths

(* response classes the specification allows *)
Allowed(r) ==
  IF IsValidAdd(r) THEN {"2xx"}
  ELSE IF r.mux = "api" /\ r.path \in AddPaths THEN {"4xx", "5xx"}      \* malformed / empty / wrong method
  ELSE Classes

(* version (number of events) after the request *)
Effect(r, before) == IF IsValidAdd(r) THEN before + r.valid ELSE before
=============================================================================
