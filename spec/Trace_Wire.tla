------------------------------ MODULE Trace_Wire ------------------------------
(* Identity oracle on the real encoders/decoders for magnitudes and byte-level fidelity that the
   TLA+ model does not hold (TLC integers are 32-bit; encoders are not modelled byte by byte):
   every case must survive encode -> decode unchanged / with an unchanged verdict. *)
EXTENDS Integers, Sequences, TLC, Json
CONSTANTS TraceFile
Trace == ndJsonDeserialize(TraceFile)
VARIABLES l, viol
vars == <<l, viol>>
View == l
Init == l = 1 /\ viol = {}
Ev == Trace[l]
Next == /\ l <= Len(Trace) /\ l' = l + 1
        /\ viol' = viol \cup (IF Ev.a = "wire" /\ ~Ev.same
                              THEN {"C13|" \o ToString(l) \o "|" \o Ev.kind \o " changed by encode/decode" \o (IF Ev.detail # "" THEN ": " \o Ev.detail ELSE "")}
                              ELSE {})
Spec == Init /\ [][Next]_vars
Report == (l = Len(Trace) + 1) => PrintT(<<"VIOL", viol>>)
Accepted == TLCGet("stats").diameter = Len(Trace) + 1
=============================================================================
