------------------------------ MODULE MC_Hyper ------------------------------
(***************************************************************************)
(* The incremental (trie) form of the hyper tree used by large-scale trace  *)
(* validation is the canonical tree: for every sequence of bulk insertions  *)
(* over an 8-bit universe (duplicates, re-insertions with a later version,  *)
(* keys sharing prefixes of 0..7 bits, both sides of the cache limit) the   *)
(* trie's root term is HRoot of the resulting map and its search result is  *)
(* HSearch for every key of the universe (present or absent).               *)
(***************************************************************************)
EXTENDS Hyper

CONSTANTS MaxLen, MaxBulk

U == {"00", "01", "08", "10", "14", "18", "80", "81", "c0"}
Bits8(k) ==
  CASE k = "00" -> <<0,0,0,0,0,0,0,0>>
    [] k = "01" -> <<0,0,0,0,0,0,0,1>>
    [] k = "08" -> <<0,0,0,0,1,0,0,0>>
    [] k = "10" -> <<0,0,0,1,0,0,0,0>>
    [] k = "14" -> <<0,0,0,1,0,1,0,0>>
    [] k = "18" -> <<0,0,0,1,1,0,0,0>>
    [] k = "80" -> <<1,0,0,0,0,0,0,0>>
    [] k = "81" -> <<1,0,0,0,0,0,0,1>>
    [] k = "c0" -> <<1,1,0,0,0,0,0,0>>

(* table form (the CASE is evaluated once per key) *)
Bits8Tab == [k \in U |-> Bits8(k)]
Bits8T(k) == Bits8Tab[k]

VARIABLES n, hmap, trie
vars == <<n, hmap, trie>>

Bulks == UNION { [1..m -> U] : m \in 1..MaxBulk }
Range(f) == { f[i] : i \in DOMAIN f }
FirstIdx(bulk, k) == CHOOSE i \in 1..Len(bulk) : bulk[i] = k /\ \A j \in 1..(i - 1) : bulk[j] # k
ApplyBulkMap(m, bulk, v0) ==
  [k \in DOMAIN m \cup Range(bulk) |-> IF k \in Range(bulk) THEN v0 + FirstIdx(bulk, k) - 1 ELSE m[k]]

Init == n = 0 /\ hmap = <<>> /\ trie = TrieE

Add(b) ==
  /\ n + Len(b) <= MaxLen
  /\ n' = n + Len(b)
  /\ hmap' = ApplyBulkMap(hmap, b, n)
  /\ trie' = TApplyBulk(trie, b, n)

Next == \E b \in Bulks : Add(b)
Spec == Init /\ [][Next]_vars

TrieIsCanonicalRoot == TRoot(trie) = HRoot(hmap)
TrieSearchIsSearch  == \A d \in U : TSearch(trie, d) = HSearch(hmap, d)
TrieCounts          == trie.c = Cardinality(DOMAIN hmap)
(* the hash term alone identifies the map (so the trie, as state, adds nothing to the root) *)
View == <<n, hmap>>
=============================================================================
