--------------------------- MODULE ClientTopology ---------------------------
(***************************************************************************)
(* The client's endpoint selection (client/topology.go, endpoint.go).      *)
(*                                                                         *)
(* State (a projection that keeps the object sharing the code relies on):  *)
(*   eps  sequence of endpoint objects [url, sec, dead]  (sec: nodeType is  *)
(*        "secondary")                                                      *)
(*   pi   where the primary object is: index into eps, -1 = an object that  *)
(*        is no longer listed (then `p` holds it), -2 = there is no primary *)
(*   cur  round-robin cursor (-1 after every update)                        *)
(* Preferences: 0 Primary, 1 PrimaryPreferred, 2 Secondary,                 *)
(*              3 SecondaryPreferred, 4 Any                                 *)
(*                                                                         *)
(* ReuseKeepsNodeType = TRUE is the pinned code: Update re-uses the old     *)
(* endpoint object of a listed url WITHOUT resetting its node type, so a    *)
(* former primary listed as a secondary stays "primary" and is never chosen *)
(* by the secondary preferences (finding F9).                               *)
(***************************************************************************)
EXTENDS Integers, Sequences, FiniteSets, TLC

CONSTANT ReuseKeepsNodeType

NoEp == [url |-> "", sec |-> FALSE, dead |-> FALSE]

PrimObj(P) == IF P.pi >= 0 THEN P.eps[P.pi + 1] ELSE IF P.pi = -1 THEN P.p ELSE NoEp
HasPrim(P) == P.pi # -2
PrimAlive(P) == HasPrim(P) /\ ~PrimObj(P).dead

Empty(revive) == [eps |-> <<>>, pi |-> -2, p |-> NoEp, cur |-> -1, revive |-> revive]

(*-------------------------------------------------------------- Update ---*)
FirstWithUrl(eps, u) == IF \E i \in 1..Len(eps) : eps[i].url = u
                        THEN CHOOSE i \in 1..Len(eps) : eps[i].url = u /\ \A j \in 1..(i - 1) : eps[j].url # u
                        ELSE 0

RECURSIVE Secs(_, _)
Secs(old, us) ==      \* the secondaries part of the new list
  IF us = <<>> THEN <<>>
  ELSE LET u == Head(us) i == FirstWithUrl(old, u) IN
       IF i > 0 THEN <<(IF ReuseKeepsNodeType THEN old[i] ELSE [old[i] EXCEPT !.sec = TRUE])>> \o Secs(old, Tail(us))
       ELSE IF u # "" THEN <<[url |-> u, sec |-> TRUE, dead |-> FALSE]>> \o Secs(old, Tail(us))
       ELSE Secs(old, Tail(us))

Update(P, prim, us) ==
  LET secs == Secs(P.eps, us) IN
  IF prim # ""
  THEN [P EXCEPT !.eps = <<[url |-> prim, sec |-> FALSE, dead |-> FALSE]>> \o secs, !.pi = 0, !.p = NoEp, !.cur = -1]
  ELSE (* the primary object is kept; it stays shared with the list only if its url is re-used as a secondary *)
       LET po == PrimObj(P)
           k  == IF P.pi >= 0 THEN (IF \E j \in 1..Len(us) : FirstWithUrl(P.eps, us[j]) = P.pi + 1
                                    THEN (CHOOSE j \in 1..Len(secs) : secs[j].url = po.url) - 1 ELSE -1)
                 ELSE P.pi IN
       [P EXCEPT !.eps = secs, !.pi = k, !.p = (IF k = -1 THEN po ELSE NoEp), !.cur = -1]

(*------------------------------------------------------- NextReadEndpoint -*)
(* the bounded round-robin scan of the code: up to n+1 probes *)
RECURSIVE Scan(_, _, _, _)
Scan(P, c, k, needSec) ==      \* -> [found, idx (0-based), cur]
  LET n == Len(P.eps) IN
  IF n = 0 \/ k > n THEN [found |-> FALSE, idx |-> -1, cur |-> c]
  ELSE LET c2 == IF c + 1 >= n THEN 0 ELSE c + 1
           e  == P.eps[c2 + 1] IN
       IF ~e.dead /\ (~needSec \/ e.sec) THEN [found |-> TRUE, idx |-> c2, cur |-> c2]
       ELSE Scan(P, c2, k + 1, needSec)

Revived(P) == IF P.revive
              THEN [P EXCEPT !.eps = [i \in 1..Len(P.eps) |-> [P.eps[i] EXCEPT !.dead = FALSE]]]
              ELSE P

None(P) == [ok |-> FALSE, idx |-> -1, url |-> "", st |-> Revived(P)]
ByPrim(P) == [ok |-> TRUE, idx |-> P.pi, url |-> PrimObj(P).url, st |-> P]
ByScan(P, s) == [ok |-> TRUE, idx |-> s.idx, url |-> P.eps[s.idx + 1].url, st |-> [P EXCEPT !.cur = s.cur]]

NextRead(P, pref) ==
  LET ss == Scan(P, P.cur, 0, TRUE)
      sa == Scan(P, P.cur, 0, FALSE)
      Pss == [P EXCEPT !.cur = ss.cur] IN
  CASE pref = 0 -> IF PrimAlive(P) THEN ByPrim(P) ELSE None(P)
    [] pref = 1 -> IF PrimAlive(P) THEN ByPrim(P) ELSE IF ss.found THEN ByScan(P, ss) ELSE None(Pss)
    [] pref = 2 -> IF ss.found THEN ByScan(P, ss) ELSE None(Pss)
    [] pref = 3 -> IF ss.found THEN ByScan(P, ss) ELSE IF PrimAlive(P) THEN ByPrim(Pss) ELSE None(Pss)
    [] pref = 4 -> IF sa.found THEN ByScan(P, sa) ELSE None([P EXCEPT !.cur = sa.cur])

Mark(P, i, what) ==
  LET f(e) == [e EXCEPT !.dead = (what = "dead")] IN
  IF i >= 0 THEN (IF i < Len(P.eps) THEN [P EXCEPT !.eps[i + 1] = f(P.eps[i + 1])] ELSE P)
  ELSE IF P.pi >= 0 THEN [P EXCEPT !.eps[P.pi + 1] = f(P.eps[P.pi + 1])]
  ELSE IF P.pi = -1 THEN [P EXCEPT !.p = f(P.p)] ELSE P

(*------------------------------------------------------------ the property *)
(* roles according to the topology the client was last given: the listed endpoints other than the
   primary object are the secondaries *)
IsSecondaryByTopology(P, i) == i >= 0 /\ i < Len(P.eps) /\ i # P.pi
LiveSecondaries(P) == { i \in 0..(Len(P.eps) - 1) : IsSecondaryByTopology(P, i) /\ ~P.eps[i + 1].dead }
LiveListed(P)      == { i \in 0..(Len(P.eps) - 1) : ~P.eps[i + 1].dead }

(* A url can be both the kept primary and a listed secondary (an update without leader that lists
   the old leader among the nodes): then reading from it under a secondary preference is
   acceptable but not required.  MayChoose is what a selection may return, MustFind what obliges
   it to return something. *)
PrimAsSec(P) == IF P.pi >= 0 /\ P.eps[P.pi + 1].sec /\ ~P.eps[P.pi + 1].dead THEN {P.pi} ELSE {}

MustFind(P, pref) ==
  CASE pref = 0 -> IF PrimAlive(P) THEN {P.pi} ELSE {}
    [] pref = 1 -> IF PrimAlive(P) THEN {P.pi} ELSE LiveSecondaries(P)
    [] pref = 2 -> LiveSecondaries(P)
    [] pref = 3 -> IF LiveSecondaries(P) # {} THEN LiveSecondaries(P) ELSE IF PrimAlive(P) THEN {P.pi} ELSE {}
    [] pref = 4 -> LiveListed(P)

MayChoose(P, pref) ==
  CASE pref = 0 -> MustFind(P, 0)
    [] pref = 1 -> IF PrimAlive(P) THEN {P.pi} ELSE LiveSecondaries(P) \cup PrimAsSec(P)
    [] pref = 2 -> LiveSecondaries(P) \cup PrimAsSec(P)
    [] pref = 3 -> IF LiveSecondaries(P) \cup PrimAsSec(P) # {} THEN LiveSecondaries(P) \cup PrimAsSec(P)
                   ELSE IF PrimAlive(P) THEN {P.pi} ELSE {}
    [] pref = 4 -> LiveListed(P)

(* what C20 demands of one selection with outcome (ok, idx) in state P: never a dead or
   forbidden endpoint; an endpoint is returned whenever a live permitted one exists *)
SelectionOK(P, pref, ok, idx) ==
  IF ok THEN idx \in MayChoose(P, pref) ELSE MustFind(P, pref) = {}
=============================================================================
