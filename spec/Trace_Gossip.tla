----------------------------- MODULE Trace_Gossip -----------------------------
(* Trace validation of real gossip agents against Gossip.tla's invariants.  Events of one run
   are collected and judged when the network is quiet (the order in which different agents'
   goroutines log is not meaningful, so no check depends on it). *)
EXTENDS Integers, Sequences, FiniteSets, TLC, Json
CONSTANTS TraceFile
Trace == ndJsonDeserialize(TraceFile)
VARIABLES l, roles, injects, delivers, recvs, tasks, viol
vars == <<l, roles, injects, delivers, recvs, tasks, viol>>
View == l
Tag(p, what) == p \o "|" \o ToString(l) \o "|" \o what
Init == l = 1 /\ roles = <<>> /\ injects = {} /\ delivers = <<>> /\ recvs = <<>> /\ tasks = <<>> /\ viol = {}
Ev == Trace[l]

Count(sq, P(_)) == Cardinality({ i \in 1..Len(sq) : P(sq[i]) })

(* network receptions = all receptions minus the ones the driver put straight into the In bus *)
NetRecvs(agent, batch, ttl) ==
  Count(recvs, LAMBDA r : r.agent = agent /\ r.batch = batch /\ r.ttl = ttl)
  - Count(delivers, LAMBDA d : d.agent = agent /\ d.batch = batch /\ d.ttl = ttl)

Holders(batch, ttl) ==    \* agents that held the batch with this ttl: injected there, delivered there, or received there
  { i.agent : i \in { x \in injects : x.batch = batch /\ x.ttl = ttl } }
  \cup { recvs[k].agent : k \in { j \in 1..Len(recvs) : recvs[j].batch = batch /\ recvs[j].ttl = ttl } }

Agents == DOMAIN roles
BatchesSeen == { recvs[k].batch : k \in 1..Len(recvs) } \cup { i.batch : i \in injects }
TTLsSeen == { recvs[k].ttl : k \in 1..Len(recvs) }
NRoles == Cardinality({ roles[a] : a \in Agents })

Judge ==
  UNION { UNION { LET n == NetRecvs(a, b, t) IN
      (IF n > 0 /\ t < 0 THEN {Tag("C18", "a message whose time-to-live was exhausted was sent on (received with ttl " \o ToString(t) \o ")")} ELSE {})
      \cup (IF n > 0 /\ Holders(b, t + 1) \ {a} = {}
            THEN {Tag("C18", IF Holders(b, t + 1) = {a} THEN "an agent routed a message to itself"
                             ELSE "received with a ttl that no hop lowered by exactly one")} ELSE {})
      : t \in TTLsSeen } : <<a, b>> \in Agents \X BatchesSeen }
  \cup UNION { (IF Count(tasks, LAMBDA t : t.agent = a /\ t.batch = b) > 1
                THEN {Tag("C18", "tasks created more than once for the same batch on agent " \o a)} ELSE {})
               : <<a, b>> \in Agents \X BatchesSeen }
  \cup UNION { LET total == Count(recvs, LAMBDA r : r.batch = b) - Count(delivers, LAMBDA d : d.batch = b)
                   inj == Cardinality({ x \in injects : x.batch = b }) + Count(delivers, LAMBDA d : d.batch = b) IN
               (IF total > (Cardinality(Agents) + inj) * NRoles
                THEN {Tag("C18", "dissemination of a batch is not bounded by one forward per agent")} ELSE {})
               : b \in BatchesSeen }

StepReset == Ev.a = "reset" /\ roles' = (IF "roles" \in DOMAIN Ev THEN Ev.roles ELSE <<>>) /\ injects' = {} /\ delivers' = <<>> /\ recvs' = <<>> /\ tasks' = <<>> /\ UNCHANGED viol
StepInject == Ev.a = "inject" /\ injects' = injects \cup {[agent |-> Ev.agent, batch |-> Ev.batch, ttl |-> Ev.ttl]} /\ UNCHANGED <<roles, delivers, recvs, tasks, viol>>
StepDeliver == Ev.a = "deliver" /\ delivers' = Append(delivers, [agent |-> Ev.agent, batch |-> Ev.batch, ttl |-> Ev.ttl]) /\ UNCHANGED <<roles, injects, recvs, tasks, viol>>
StepRecv == Ev.a = "recv" /\ recvs' = Append(recvs, [agent |-> Ev.agent, batch |-> Ev.batch, ttl |-> Ev.ttl]) /\ UNCHANGED <<roles, injects, delivers, tasks, viol>>
StepTask == Ev.a = "task" /\ tasks' = Append(tasks, [agent |-> Ev.agent, batch |-> Ev.batch]) /\ UNCHANGED <<roles, injects, delivers, recvs, viol>>
StepQuiet == Ev.a = "quiet" /\ viol' = viol \cup Judge /\ UNCHANGED <<roles, injects, delivers, recvs, tasks>>
StepMembers == Ev.a = "members" /\ viol' = viol \cup (IF ~Ev.ok THEN {Tag("D18", "agents did not see each other within the deadline")} ELSE {})
               /\ UNCHANGED <<roles, injects, delivers, recvs, tasks>>
(* concurrent use of the real Topology (gossiptopo driver) *)
StepTopo == /\ Ev.a \in {"topo_bad", "topo_done"}
            /\ viol' = viol \cup (IF Ev.a = "topo_bad" THEN {Tag("C18", "topology under concurrent joins/leaves: " \o Ev.what)} ELSE {})
            /\ UNCHANGED <<roles, injects, delivers, recvs, tasks>>
Next == l <= Len(Trace) /\ l' = l + 1 /\ (StepReset \/ StepInject \/ StepDeliver \/ StepRecv \/ StepTask \/ StepQuiet \/ StepMembers \/ StepTopo)
Spec == Init /\ [][Next]_vars
Report == (l = Len(Trace) + 1) => PrintT(<<"VIOL", viol>>)
Accepted == TLCGet("stats").diameter = Len(Trace) + 1
=============================================================================
