----------------------------- MODULE MC_LogStore -----------------------------
(* Exhaustive sanity of the log-store model: indexes 1..N, two terms, every sequence of
   store / delete-range up to MaxOps; lemmas raft relies on. *)
EXTENDS LogStore
CONSTANTS N, MaxOps
VARIABLES lg, nops
vars == <<lg, nops>>
Entries == [index : 1..N, term : 1..2, type : {0}, data : {"aa"}, ext : {""}]
Init == lg = EmptyLog /\ nops = 0
Store(e) == lg' = StoreAll(lg, <<e>>)
Store2(e1, e2) == lg' = StoreAll(lg, <<e1, e2>>)
Del(lo, hi) == lg' = DeleteRange(lg, lo, hi)
Next == /\ nops < MaxOps /\ nops' = nops + 1
        /\ \/ \E e \in Entries : Store(e)
           \/ \E e1 \in Entries, e2 \in Entries : Store2(e1, e2)
           \/ \E lo \in 0..(N + 1), hi \in 0..(N + 1) : Del(lo, hi)
Spec == Init /\ [][Next]_vars
FirstLast == /\ (DOMAIN lg = {} => FirstIndex(lg) = 0 /\ LastIndex(lg) = 0)
             /\ (DOMAIN lg # {} => FirstIndex(lg) \in DOMAIN lg /\ LastIndex(lg) \in DOMAIN lg
                                   /\ \A i \in DOMAIN lg : FirstIndex(lg) <= i /\ i <= LastIndex(lg))
KeyIsIndex == \A i \in DOMAIN lg : lg[i].index = i
DeleteExact == [][\A lo \in 0..(N + 1), hi \in 0..(N + 1) : Del(lo, hi) =>
                    /\ \A i \in DOMAIN lg : (i \in DOMAIN lg') <=> (i < lo \/ i > hi)
                    /\ \A i \in DOMAIN lg' : lg'[i] = lg[i]]_vars
LastStoreWins == [][\A e \in Entries : Store(e) => lg'[e.index] = e /\ \A i \in DOMAIN lg \ {e.index} : lg'[i] = lg[i]]_vars
=============================================================================
