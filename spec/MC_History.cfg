SPECIFICATION Spec
CONSTANT MaxN = 24
INVARIANT IncrementalEqualsCanonical
INVARIANT RootDependsExactlyOnPrefix
INVARIANT MembershipComplete
INVARIANT MembershipSound
INVARIANT IncrementalComplete
INVARIANT IncrementalSound
INVARIANT ForkAfterStartLinks
CHECK_DEADLOCK FALSE
