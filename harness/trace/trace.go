// Package trace writes ndjson traces for TLC (one JSON object per line, no nulls).
package trace

import (
	"bufio"
	"encoding/json"
	"os"
	"sync"
)

type Writer struct {
	mu    sync.Mutex
	f     *os.File
	w     *bufio.Writer
	Lines int
}

func Create(path string) (*Writer, error) {
	f, err := os.Create(path)
	if err != nil {
		return nil, err
	}
	return &Writer{f: f, w: bufio.NewWriterSize(f, 1<<20)}, nil
}

type Ev = map[string]interface{}

func (t *Writer) Emit(e Ev) {
	b, err := json.Marshal(e)
	if err != nil {
		panic(err)
	}
	t.mu.Lock()
	t.w.Write(b)
	t.w.WriteByte('\n')
	t.Lines++
	t.mu.Unlock()
}

func (t *Writer) Close() error {
	t.mu.Lock()
	defer t.mu.Unlock()
	if err := t.w.Flush(); err != nil {
		return err
	}
	return t.f.Close()
}
