// Package gate is a storage.ManagedStore decorator around the real store of a RaftNode.
// It (a) reports every Mutate with the decoded fsm state / version metadata / inserted
// leaves, before and after the real write, (b) can hold a Mutate before or after the write
// so that other goroutines run inside the compute->persist window, (c) can kill the
// process at a chosen write, (d) tracks readers so that a leaked iterator is visible.
package gate

import (
	"io"
	"os"
	"sync"
	"sync/atomic"
	"syscall"

	"github.com/bbva/qed/storage"
	"github.com/bbva/qed/util"
	"github.com/hashicorp/go-msgpack/codec"
)

type FsmState struct{ Index, BalloonVersion uint64 }
type VersionMeta struct{ PreviousVersion, NewVersion uint64 }

// MutateInfo describes one Mutate call.
type MutateInfo struct {
	Seq      int
	HasFsm   bool
	Fsm      FsmState
	HasMeta  bool
	Meta     VersionMeta
	Leaves   [][]byte // history leaf hashes (index ascending) written by this batch
	LeafIdx  []uint64
	NMuts    int
	Tables   map[string]int
	Err      error
}

type Store struct {
	storage.ManagedStore
	Name string

	mu          sync.Mutex
	seq         int
	OnBefore    func(*MutateInfo)
	OnAfter     func(*MutateInfo)
	OnLoad      func(phase string)
	holdBefore  map[int]chan struct{} // seq -> release
	holdAfter   map[int]chan struct{}
	Held        chan int // receives seq when a Mutate is being held
	killBefore  int
	killAfter   int
	holdGet     chan struct{}   // if set, the next Get on holdGetTab waits for it (one shot)
	holdGetTab  storage.Table
	GetHeld     chan struct{}   // signalled when a Get is being held
	OnBackup    func(err error) // called right after the inner Backup returned (still inside CreateBackup)
	holdBackup  chan struct{}   // if set, the next Backup waits for it before copying
	BackupHeld  chan struct{}   // signalled when a Backup is being held
	openReaders int32
	LeakAtClose int32
	Closed      bool
}

func Wrap(inner storage.ManagedStore, name string) *Store {
	return &Store{ManagedStore: inner, Name: name, holdBefore: map[int]chan struct{}{}, holdAfter: map[int]chan struct{}{}, Held: make(chan int, 16), BackupHeld: make(chan struct{}, 4), GetHeld: make(chan struct{}, 4)}
}

// HoldBackup makes the next Backup wait (after CreateBackup has read the version it records,
// before the engine captures the store) until the returned channel is closed.
func (s *Store) HoldBackup() chan struct{} {
	s.mu.Lock()
	defer s.mu.Unlock()
	s.holdBackup = make(chan struct{})
	return s.holdBackup
}

// HoldGet makes the next Get on the given table wait until the returned channel is closed
// (parks an insertion in the middle of its in-memory computation: the balloon reads the hyper
// table while it inserts). CancelGet disarms it.
func (s *Store) HoldGet(t storage.Table) chan struct{} {
	s.mu.Lock()
	defer s.mu.Unlock()
	s.holdGet = make(chan struct{})
	s.holdGetTab = t
	return s.holdGet
}

func (s *Store) CancelGet() {
	s.mu.Lock()
	s.holdGet = nil
	s.mu.Unlock()
}

func (s *Store) Get(t storage.Table, key []byte) (*storage.KVPair, error) {
	s.mu.Lock()
	h := s.holdGet
	if h != nil && t == s.holdGetTab {
		s.holdGet = nil
	} else {
		h = nil
	}
	s.mu.Unlock()
	if h != nil {
		s.GetHeld <- struct{}{}
		<-h
	}
	return s.ManagedStore.Get(t, key)
}

func (s *Store) Backup(metadata string) error {
	s.mu.Lock()
	h := s.holdBackup
	s.holdBackup = nil
	cb := s.OnBackup
	s.mu.Unlock()
	if h != nil {
		s.BackupHeld <- struct{}{}
		<-h
	}
	err := s.ManagedStore.Backup(metadata)
	if cb != nil {
		cb(err)
	}
	return err
}

var mh = new(codec.MsgpackHandle)

func decode(b []byte, out interface{}) error { return codec.NewDecoderBytes(b, mh).Decode(out) }

func (s *Store) Seq() int { s.mu.Lock(); defer s.mu.Unlock(); return s.seq }

// HoldBefore makes the k-th Mutate from now (1 = next) wait before the real write.
func (s *Store) HoldBefore(k int) chan struct{} {
	s.mu.Lock()
	defer s.mu.Unlock()
	ch := make(chan struct{})
	s.holdBefore[s.seq+k] = ch
	return ch
}

func (s *Store) HoldAfter(k int) chan struct{} {
	s.mu.Lock()
	defer s.mu.Unlock()
	ch := make(chan struct{})
	s.holdAfter[s.seq+k] = ch
	return ch
}

// KillBefore / KillAfter: SIGKILL this process at the k-th Mutate from now.
func (s *Store) KillBefore(k int) { s.mu.Lock(); s.killBefore = s.seq + k; s.mu.Unlock() }
func (s *Store) KillAfter(k int)  { s.mu.Lock(); s.killAfter = s.seq + k; s.mu.Unlock() }

func die() {
	syscall.Kill(os.Getpid(), syscall.SIGKILL)
	select {}
}

func (s *Store) Mutate(muts []*storage.Mutation, meta []byte) error {
	s.mu.Lock()
	s.seq++
	seq := s.seq
	hb, ha := s.holdBefore[seq], s.holdAfter[seq]
	kb, ka := s.killBefore == seq, s.killAfter == seq
	s.mu.Unlock()

	info := &MutateInfo{Seq: seq, NMuts: len(muts), Tables: map[string]int{}}
	for _, m := range muts {
		info.Tables[m.Table.String()]++
		switch m.Table {
		case storage.FSMStateTable:
			if decode(m.Value, &info.Fsm) == nil {
				info.HasFsm = true
			}
		case storage.HistoryTable:
			if len(m.Key) == 10 && util.BytesAsUint16(m.Key[8:]) == 0 {
				info.Leaves = append(info.Leaves, append([]byte(nil), m.Value...))
				info.LeafIdx = append(info.LeafIdx, util.BytesAsUint64(m.Key[:8]))
			}
		}
	}
	if len(meta) > 0 && decode(meta, &info.Meta) == nil {
		info.HasMeta = true
	}
	if s.OnBefore != nil {
		s.OnBefore(info)
	}
	if kb {
		die()
	}
	if hb != nil {
		s.Held <- seq
		<-hb
	}
	err := s.ManagedStore.Mutate(muts, meta)
	info.Err = err
	if ka {
		die()
	}
	if s.OnAfter != nil {
		s.OnAfter(info)
	}
	if ha != nil {
		s.Held <- seq
		<-ha
	}
	return err
}

type reader struct {
	storage.KVPairReader
	s      *Store
	closed int32
}

func (r *reader) Close() {
	if atomic.CompareAndSwapInt32(&r.closed, 0, 1) {
		atomic.AddInt32(&r.s.openReaders, -1)
	}
	r.KVPairReader.Close()
}

func (s *Store) GetAll(t storage.Table) storage.KVPairReader {
	atomic.AddInt32(&s.openReaders, 1)
	return &reader{KVPairReader: s.ManagedStore.GetAll(t), s: s}
}

func (s *Store) OpenReaders() int { return int(atomic.LoadInt32(&s.openReaders)) }

func (s *Store) Close() error {
	s.LeakAtClose = atomic.LoadInt32(&s.openReaders)
	s.Closed = true
	return s.ManagedStore.Close()
}

func (s *Store) LoadSnapshot(r io.ReadCloser) error {
	if s.OnLoad != nil {
		s.OnLoad("begin")
	}
	err := s.ManagedStore.LoadSnapshot(r)
	if s.OnLoad != nil {
		if err != nil {
			s.OnLoad("error")
		} else {
			s.OnLoad("end")
		}
	}
	return err
}
