// Package gate is a storage.ManagedStore decorator around the real store of a RaftNode.
// It (a) reports every Mutate with the decoded fsm state / version metadata / inserted
// leaves, before and after the real write, (b) can hold a Mutate before or after the write
// so that other goroutines run inside the compute->persist window, (c) can kill the
// process at a chosen write, (d) tracks readers so that a leaked iterator is visible.
package gate

import (
	"io"
	"os"
	"sync"
	"sync/atomic"
	"syscall"

	"github.com/bbva/qed/storage"
	"github.com/bbva/qed/util"
	"github.com/hashicorp/go-msgpack/codec"
)

type FsmState struct{ Index, BalloonVersion uint64 }
type VersionMeta struct{ PreviousVersion, NewVersion uint64 }

// MutateInfo describes one Mutate call.
type MutateInfo struct {
	Seq      int
	HasFsm   bool
	Fsm      FsmState
	HasMeta  bool
	Meta     VersionMeta
	Leaves   [][]byte // history leaf hashes (index ascending) written by this batch
	LeafIdx  []uint64
	NMuts    int
	Tables   map[string]int
	Err      error
}

type Store struct {
	storage.ManagedStore
	Name string

	mu          sync.Mutex
	seq         int
	OnBefore    func(*MutateInfo)
	OnAfter     func(*MutateInfo)
	OnLoad      func(phase string)
	holdBefore  map[int]chan struct{} // seq -> release
	holdAfter   map[int]chan struct{}
	Held        chan int // receives seq when a Mutate is being held
	killBefore  int
	killAfter   int
	openReaders int32
	LeakAtClose int32
	Closed      bool
}

func Wrap(inner storage.ManagedStore, name string) *Store {
	return &Store{ManagedStore: inner, Name: name, holdBefore: map[int]chan struct{}{}, holdAfter: map[int]chan struct{}{}, Held: make(chan int, 16)}
}

var mh = new(codec.MsgpackHandle)

func decode(b []byte, out interface{}) error { return codec.NewDecoderBytes(b, mh).Decode(out) }

func (s *Store) Seq() int { s.mu.Lock(); defer s.mu.Unlock(); return s.seq }

// HoldBefore makes the k-th Mutate from now (1 = next) wait before the real write.
func (s *Store) HoldBefore(k int) chan struct{} {
	s.mu.Lock()
	defer s.mu.Unlock()
	ch := make(chan struct{})
	s.holdBefore[s.seq+k] = ch
	return ch
}

func (s *Store) HoldAfter(k int) chan struct{} {
	s.mu.Lock()
	defer s.mu.Unlock()
	ch := make(chan struct{})
	s.holdAfter[s.seq+k] = ch
	return ch
}

// KillBefore / KillAfter: SIGKILL this process at the k-th Mutate from now.
func (s *Store) KillBefore(k int) { s.mu.Lock(); s.killBefore = s.seq + k; s.mu.Unlock() }
func (s *Store) KillAfter(k int)  { s.mu.Lock(); s.killAfter = s.seq + k; s.mu.Unlock() }

func die() {
	syscall.Kill(os.Getpid(), syscall.SIGKILL)
	select {}
}

func (s *Store) Mutate(muts []*storage.Mutation, meta []byte) error {
	s.mu.Lock()
	s.seq++
	seq := s.seq
	hb, ha := s.holdBefore[seq], s.holdAfter[seq]
	kb, ka := s.killBefore == seq, s.killAfter == seq
	s.mu.Unlock()

	info := &MutateInfo{Seq: seq, NMuts: len(muts), Tables: map[string]int{}}
	for _, m := range muts {
		info.Tables[m.Table.String()]++
		switch m.Table {
		case storage.FSMStateTable:
			if decode(m.Value, &info.Fsm) == nil {
				info.HasFsm = true
			}
		case storage.HistoryTable:
			if len(m.Key) == 10 && util.BytesAsUint16(m.Key[8:]) == 0 {
				info.Leaves = append(info.Leaves, append([]byte(nil), m.Value...))
				info.LeafIdx = append(info.LeafIdx, util.BytesAsUint64(m.Key[:8]))
			}
		}
	}
	if len(meta) > 0 && decode(meta, &info.Meta) == nil {
		info.HasMeta = true
	}
	if s.OnBefore != nil {
		s.OnBefore(info)
	}
	if kb {
		die()
	}
	if hb != nil {
		s.Held <- seq
		<-hb
	}
	err := s.ManagedStore.Mutate(muts, meta)
	info.Err = err
	if ka {
		die()
	}
	if s.OnAfter != nil {
		s.OnAfter(info)
	}
	if ha != nil {
		s.Held <- seq
		<-ha
	}
	return err
}

type reader struct {
	storage.KVPairReader
	s      *Store
	closed int32
}

func (r *reader) Close() {
	if atomic.CompareAndSwapInt32(&r.closed, 0, 1) {
		atomic.AddInt32(&r.s.openReaders, -1)
	}
	r.KVPairReader.Close()
}

func (s *Store) GetAll(t storage.Table) storage.KVPairReader {
	atomic.AddInt32(&s.openReaders, 1)
	return &reader{KVPairReader: s.ManagedStore.GetAll(t), s: s}
}

func (s *Store) OpenReaders() int { return int(atomic.LoadInt32(&s.openReaders)) }

func (s *Store) Close() error {
	s.LeakAtClose = atomic.LoadInt32(&s.openReaders)
	s.Closed = true
	return s.ManagedStore.Close()
}

func (s *Store) LoadSnapshot(r io.ReadCloser) error {
	if s.OnLoad != nil {
		s.OnLoad("begin")
	}
	err := s.ManagedStore.LoadSnapshot(r)
	if s.OnLoad != nil {
		if err != nil {
			s.OnLoad("error")
		} else {
			s.OnLoad("end")
		}
	}
	return err
}
