// Package symhash is a symbolic hashing.Hasher: every Do/Salted call is
// hash-consed into a 32-byte identifier that is a deterministic function of the
// argument LIST (not of the concatenation), and the argument list is remembered,
// so any digest the real code produces can be decompiled into a term
//
//	{"b": hex}            literal bytes
//	{"h": [args...]}      hash of the argument list
//	{"d": i}              i-th default hash of the sparse tree
//
// which is exactly the shape the TLA+ module Hashing uses.
package symhash

import (
	"bytes"
	"crypto/sha256"
	"encoding/binary"
	"encoding/hex"
	"fmt"
	"sync"

	"github.com/bbva/qed/crypto/hashing"
)

// KeyMagic lets a driver choose the digest of an *event*: Do(KeyMagic || d32) = d32.
var KeyMagic = []byte("SYMKEY:")

type Registry struct {
	evalMu sync.Mutex
	evals  map[[32]byte][]byte
	mu     sync.RWMutex
	defs   map[[32]byte][][]byte
	defIdx map[[32]byte]int
	Calls  uint64
}

func NewRegistry() *Registry {
	return &Registry{defs: make(map[[32]byte][][]byte), defIdx: make(map[[32]byte]int)}
}

var Global = NewRegistry()

type Hasher struct{ r *Registry }

func New() hashing.Hasher               { return &Hasher{Global} }
func NewWith(r *Registry) hashing.Hasher { return &Hasher{r} }

func (h *Hasher) Len() uint16 { return 256 }

func (h *Hasher) Salted(salt []byte, data ...[]byte) hashing.Digest {
	args := make([][]byte, 0, len(data)+1)
	args = append(args, data...)
	args = append(args, salt)
	return h.Do(args...)
}

func (h *Hasher) Do(data ...[]byte) hashing.Digest {
	if len(data) == 1 && len(data[0]) == len(KeyMagic)+32 && bytes.HasPrefix(data[0], KeyMagic) {
		out := make([]byte, 32)
		copy(out, data[0][len(KeyMagic):])
		return out
	}
	hs := sha256.New()
	hs.Write([]byte("symhash/v1\x00"))
	var lb [8]byte
	binary.BigEndian.PutUint64(lb[:], uint64(len(data)))
	hs.Write(lb[:])
	for _, a := range data {
		binary.BigEndian.PutUint64(lb[:], uint64(len(a)))
		hs.Write(lb[:])
		hs.Write(a)
	}
	var id [32]byte
	copy(id[:], hs.Sum(nil))
	id[0] = 0xFE // recognisable, and never equal to a small padded version number
	h.r.mu.Lock()
	h.r.Calls++
	if _, ok := h.r.defs[id]; !ok {
		cp := make([][]byte, len(data))
		for i, a := range data {
			cp[i] = append([]byte(nil), a...)
		}
		h.r.defs[id] = cp
		if len(cp) == 2 && len(cp[0]) == 1 && len(cp[1]) == 1 && cp[0][0] == 0 && cp[1][0] == 0 {
			h.r.defIdx[id] = 0
		} else if len(cp) == 2 && len(cp[0]) == 32 && bytes.Equal(cp[0], cp[1]) {
			var k [32]byte
			copy(k[:], cp[0])
			if i, ok := h.r.defIdx[k]; ok {
				h.r.defIdx[id] = i + 1
			}
		}
	}
	h.r.mu.Unlock()
	out := make([]byte, 32) // exact capacity: batchNode.AddHashAt appends to digests
	copy(out, id[:])
	return out
}

// Term is a JSON-able term.
type Term = map[string]interface{}

type budget struct{ n int }

// Decompile turns bytes produced by the real code into a term.
func (r *Registry) Decompile(b []byte) Term {
	bud := &budget{n: 400000}
	return r.decompile(b, bud)
}

func (r *Registry) decompile(b []byte, bud *budget) Term {
	if len(b) == 32 {
		var k [32]byte
		copy(k[:], b)
		r.mu.RLock()
		args, ok := r.defs[k]
		di, isDef := r.defIdx[k]
		r.mu.RUnlock()
		if ok {
			if isDef {
				return Term{"d": di}
			}
			bud.n--
			if bud.n < 0 {
				return Term{"big": hex.EncodeToString(b)}
			}
			ts := make([]interface{}, len(args))
			for i, a := range args {
				ts[i] = r.decompile(a, bud)
			}
			return Term{"h": ts}
		}
	}
	return Term{"b": hex.EncodeToString(b)}
}

func Decompile(b []byte) Term { return Global.Decompile(b) }

// Eval evaluates a term with real SHA-256: eval(H(args)) = SHA256(concat(eval(args))).
// It knows nothing about trees.
func Eval(t Term) ([]byte, error) {
	if v, ok := t["b"]; ok {
		return hex.DecodeString(v.(string))
	}
	if v, ok := t["d"]; ok {
		var i int
		switch x := v.(type) {
		case int:
			i = x
		case float64:
			i = int(x)
		default:
			return nil, fmt.Errorf("bad default index %v", v)
		}
		s := sha256.Sum256([]byte{0, 0})
		cur := s[:]
		for k := 0; k < i; k++ {
			n := sha256.Sum256(append(append([]byte{}, cur...), cur...))
			cur = n[:]
		}
		return cur, nil
	}
	if v, ok := t["h"]; ok {
		hs := sha256.New()
		for _, a := range v.([]interface{}) {
			b, err := Eval(a.(Term))
			if err != nil {
				return nil, err
			}
			hs.Write(b)
		}
		return hs.Sum(nil), nil
	}
	return nil, fmt.Errorf("not evaluable: %v", t)
}

// EventFor returns event bytes whose digest under the symbolic hasher is d.
func EventFor(d []byte) []byte {
	return append(append([]byte{}, KeyMagic...), d...)
}

// Encoder writes terms compactly: every hash term gets a per-file sequential id and
// its definition {"h":[refs]} is emitted once (children first) through the sink, as
// line number id of the definitions file.  Events then carry {"r": id}.
type Encoder struct {
	r    *Registry
	mu   sync.Mutex
	ids  map[[32]byte]int
	next int
	sink func(def Term)
}

func NewEncoder(r *Registry, sink func(def Term)) *Encoder {
	return &Encoder{r: r, ids: make(map[[32]byte]int), sink: sink}
}

func (e *Encoder) Enc(b []byte) Term {
	e.mu.Lock()
	defer e.mu.Unlock()
	return e.enc(b)
}

func (e *Encoder) enc(b []byte) Term {
	if len(b) == 32 {
		var k [32]byte
		copy(k[:], b)
		if id, ok := e.ids[k]; ok {
			return Term{"r": id}
		}
		e.r.mu.RLock()
		args, ok := e.r.defs[k]
		di, isDef := e.r.defIdx[k]
		e.r.mu.RUnlock()
		if ok {
			if isDef {
				return Term{"d": di}
			}
			ts := make([]interface{}, len(args))
			for i, a := range args {
				ts[i] = e.enc(a)
			}
			e.next++
			id := e.next
			e.ids[k] = id
			e.sink(Term{"h": ts})
			return Term{"r": id}
		}
	}
	return Term{"b": hex.EncodeToString(b)}
}

// EvalBytes evaluates the term behind a digest with real SHA-256, memoised over the
// hash-consed DAG: eval(literal) = literal, eval(H(args)) = SHA256(concat(eval(args))).
func (r *Registry) EvalBytes(b []byte) []byte {
	if len(b) != 32 {
		return b
	}
	var k [32]byte
	copy(k[:], b)
	r.mu.RLock()
	args, ok := r.defs[k]
	r.mu.RUnlock()
	if !ok {
		return b
	}
	r.evalMu.Lock()
	if r.evals == nil {
		r.evals = make(map[[32]byte][]byte)
	}
	v, hit := r.evals[k]
	r.evalMu.Unlock()
	if hit {
		return v
	}
	hs := sha256.New()
	for _, a := range args {
		hs.Write(r.EvalBytes(a))
	}
	v = hs.Sum(nil)
	r.evalMu.Lock()
	r.evals[k] = v
	r.evalMu.Unlock()
	return v
}

// Args returns the argument list a digest was computed from (nil if unknown).
func (r *Registry) Args(b []byte) [][]byte {
	if len(b) != 32 {
		return nil
	}
	var k [32]byte
	copy(k[:], b)
	r.mu.RLock()
	defer r.mu.RUnlock()
	return r.defs[k]
}
