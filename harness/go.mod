module verif/harness

go 1.23

toolchain go1.23.5

require (
	github.com/bbva/qed v0.0.0
	github.com/hashicorp/go-msgpack v0.5.5
	github.com/hashicorp/raft v1.1.1
	github.com/prometheus/client_golang v0.9.2
	pgregory.net/rapid v1.3.0
)

require (
	cloud.google.com/go v0.26.0 // indirect
	github.com/BurntSushi/toml v0.3.1 // indirect
	github.com/DataDog/datadog-go v2.2.0+incompatible // indirect
	github.com/OneOfOne/xxhash v1.2.2 // indirect
	github.com/armon/consul-api v0.0.0-20180202201655-eb2c6b5be1b6 // indirect
	github.com/armon/go-metrics v0.0.0-20190430140413-ec5e00d3c878 // indirect
	github.com/beorn7/perks v0.0.0-20180321164747-3a771d992973 // indirect
	github.com/boltdb/bolt v1.3.1 // indirect
	github.com/cespare/xxhash v1.1.0 // indirect
	github.com/circonus-labs/circonus-gometrics v2.3.1+incompatible // indirect
	github.com/circonus-labs/circonusllhist v0.1.3 // indirect
	github.com/client9/misspell v0.3.4 // indirect
	github.com/coocood/freecache v1.1.0 // indirect
	github.com/coreos/etcd v3.3.10+incompatible // indirect
	github.com/coreos/go-etcd v2.0.0+incompatible // indirect
	github.com/coreos/go-semver v0.2.0 // indirect
	github.com/cpuguy83/go-md2man v1.0.10 // indirect
	github.com/davecgh/go-spew v1.1.1 // indirect
	github.com/fsnotify/fsnotify v1.4.7 // indirect
	github.com/golang/glog v0.0.0-20160126235308-23def4e6c14b // indirect
	github.com/golang/mock v1.1.1 // indirect
	github.com/golang/protobuf v1.3.2 // indirect
	github.com/google/btree v1.0.0 // indirect
	github.com/google/go-cmp v0.2.0 // indirect
	github.com/hashicorp/errwrap v1.0.0 // indirect
	github.com/hashicorp/go-cleanhttp v0.5.0 // indirect
	github.com/hashicorp/go-hclog v0.9.1 // indirect
	github.com/hashicorp/go-immutable-radix v1.0.0 // indirect
	github.com/hashicorp/go-multierror v1.0.0 // indirect
	github.com/hashicorp/go-retryablehttp v0.5.3 // indirect
	github.com/hashicorp/go-sockaddr v1.0.0 // indirect
	github.com/hashicorp/go-uuid v1.0.0 // indirect
	github.com/hashicorp/golang-lru v0.5.0 // indirect
	github.com/hashicorp/hcl v1.0.0 // indirect
	github.com/hashicorp/memberlist v0.1.5 // indirect
	github.com/hashicorp/raft-boltdb v0.0.0-20171010151810-6e5ba93211ea // indirect
	github.com/imdario/mergo v0.3.7 // indirect
	github.com/inconshreveable/mousetrap v1.0.0 // indirect
	github.com/kr/pretty v0.1.0 // indirect
	github.com/kr/pty v1.1.1 // indirect
	github.com/kr/text v0.1.0 // indirect
	github.com/magiconair/properties v1.8.0 // indirect
	github.com/matttproud/golang_protobuf_extensions v1.0.1 // indirect
	github.com/miekg/dns v1.0.14 // indirect
	github.com/mitchellh/go-homedir v1.1.0 // indirect
	github.com/mitchellh/mapstructure v1.1.2 // indirect
	github.com/octago/sflags v0.2.0 // indirect
	github.com/pascaldekloe/goe v0.1.0 // indirect
	github.com/pelletier/go-toml v1.2.0 // indirect
	github.com/pkg/errors v0.8.1 // indirect
	github.com/pmezard/go-difflib v1.0.0 // indirect
	github.com/prometheus/client_model v0.0.0-20180712105110-5c3871d89910 // indirect
	github.com/prometheus/common v0.0.0-20181126121408-4724e9255275 // indirect
	github.com/prometheus/procfs v0.0.0-20190328153300-af7bedc223fb // indirect
	github.com/russross/blackfriday v1.5.2 // indirect
	github.com/sean-/seed v0.0.0-20170313163322-e2103e2c3529 // indirect
	github.com/soheilhy/cmux v0.1.4 // indirect
	github.com/spaolacci/murmur3 v0.0.0-20180118202830-f09979ecbc72 // indirect
	github.com/spf13/afero v1.1.2 // indirect
	github.com/spf13/cast v1.3.0 // indirect
	github.com/spf13/cobra v0.0.5 // indirect
	github.com/spf13/jwalterweatherman v1.0.0 // indirect
	github.com/spf13/pflag v1.0.3 // indirect
	github.com/spf13/viper v1.3.2 // indirect
	github.com/stretchr/objx v0.1.0 // indirect
	github.com/stretchr/testify v1.4.0 // indirect
	github.com/tv42/httpunix v0.0.0-20150427012821-b75d8614f926 // indirect
	github.com/ugorji/go/codec v0.0.0-20181204163529-d75b2dcb6bc8 // indirect
	github.com/xordataexchange/crypt v0.0.3-0.20170626215501-b2862e3d0a77 // indirect
	golang.org/x/crypto v0.0.0-20190308221718-c2843e01d9a2 // indirect
	golang.org/x/exp v0.0.0-20190121172915-509febef88a4 // indirect
	golang.org/x/lint v0.0.0-20190313153728-d0100b6bd8b3 // indirect
	golang.org/x/net v0.0.0-20190923162816-aa69164e4478 // indirect
	golang.org/x/oauth2 v0.0.0-20180821212333-d2e6202438be // indirect
	golang.org/x/sync v0.0.0-20190423024810-112230192c58 // indirect
	golang.org/x/sys v0.0.0-20190924154521-2837fb4f24fe // indirect
	golang.org/x/text v0.3.2 // indirect
	golang.org/x/tools v0.0.0-20190524140312-2c0ae7006135 // indirect
	google.golang.org/appengine v1.4.0 // indirect
	google.golang.org/genproto v0.0.0-20190916214212-f660b8655731 // indirect
	google.golang.org/grpc v1.23.1 // indirect
	gopkg.in/check.v1 v1.0.0-20180628173108-788fd7840127 // indirect
	gopkg.in/yaml.v2 v2.2.2 // indirect
	honnef.co/go/tools v0.0.0-20190523083050-ea95bdfd59fc // indirect
)

replace github.com/bbva/qed => /repo
