// Package qcluster starts real consensus.RaftNodes (real RocksDB, real hashicorp/raft over
// loopback TCP, real gRPC state transfer) with the gated store and the symbolic hasher.
package qcluster

import (
	"fmt"
	"net"
	"os"
	"path/filepath"
	"time"

	"github.com/bbva/qed/consensus"
	"github.com/bbva/qed/protocol"
	"github.com/bbva/qed/storage/rocks"

	"verif/harness/gate"
	"verif/harness/symhash"
)

type Node struct {
	ID      int
	Dir     string
	Addr    string
	Raft    *consensus.RaftNode
	Gate    *gate.Store
	SnapCh  chan *protocol.Snapshot
	Up      bool
	RocksOpts func(*rocks.Options)
}

func FreeAddr() string {
	l, err := net.Listen("tcp", "127.0.0.1:0")
	if err != nil {
		panic(err)
	}
	defer l.Close()
	return l.Addr().String()
}

func UseSymbolicHasher() { consensus.VerifHasherF = symhash.New }

type Opts struct {
	Bootstrap bool
	Seeds     []string
	Timeout   time.Duration
	Hook      func(g *gate.Store) // install callbacks before the node starts
}

// Start (or restart) node n on its directory.
func (n *Node) Start(o Opts) error {
	if n.Addr == "" {
		n.Addr = FreeAddr()
	}
	dbPath := filepath.Join(n.Dir, "db")
	raftPath := filepath.Join(n.Dir, "raft")
	os.MkdirAll(dbPath, 0755)
	os.MkdirAll(raftPath, 0755)
	ro := rocks.DefaultOptions()
	ro.Path = dbPath
	if n.RocksOpts != nil {
		n.RocksOpts(ro)
	}
	db, err := rocks.NewRocksDBStoreWithOpts(ro)
	if err != nil {
		return err
	}
	g := gate.Wrap(db, fmt.Sprintf("n%d", n.ID))
	if o.Hook != nil {
		o.Hook(g)
	}
	to := o.Timeout
	if to == 0 {
		to = 500 * time.Millisecond
	}
	co := consensus.DefaultClusteringOptions()
	co.NodeID = fmt.Sprintf("node%d", n.ID)
	co.Addr = n.Addr
	co.MgmtAddr = "127.0.0.1:0"
	co.HttpAddr = "127.0.0.1:0"
	co.Bootstrap = o.Bootstrap
	co.Seeds = o.Seeds
	co.RaftLogPath = raftPath
	co.SnapshotThreshold = 1 << 30
	co.TrailingLogs = 0
	co.RaftHeartbeatTimeout = to
	co.RaftElectionTimeout = to
	co.RaftLeaseTimeout = to
	co.RaftCommitTimeout = 20 * time.Millisecond
	ch := make(chan *protocol.Snapshot, 100000)
	rn, err := consensus.NewRaftNode(co, g, ch, nil)
	if err != nil {
		if !g.Closed {
			db.Close()
		}
		return err
	}
	n.Raft, n.Gate, n.SnapCh, n.Up = rn, g, ch, true
	return nil
}

func (n *Node) Stop() error {
	if !n.Up {
		return nil
	}
	n.Up = false
	return n.Raft.Close(true)
}

func WaitFor(d time.Duration, f func() bool) bool {
	deadline := time.Now().Add(d)
	for time.Now().Before(deadline) {
		if f() {
			return true
		}
		time.Sleep(20 * time.Millisecond)
	}
	return f()
}

// Leader returns the running node that believes it is the leader.
func Leader(nodes []*Node) *Node {
	for _, n := range nodes {
		if n.Up && n.Raft.IsLeader() {
			return n
		}
	}
	return nil
}
