// Driver "balloonbig": the balloon at a scale where the hyper cache table spans several pages
// of the cache warm-up (RebuildCache reads it 1000 tiles at a time; one tile per distinct
// 20-bit digest prefix).  A real balloon over RocksDB is filled with large bulks, closed and
// reopened at chosen tile counts (exactly on a page boundary, one past it, mid page), and then
// inserted into and queried again; every snapshot and proof after the reopen is checked by
// Trace_Balloon against the canonical trees of the whole log (C08, C04, C01).
package main

import (
	"encoding/json"
	"flag"
	"fmt"
	"io/ioutil"
	"math/rand"
	"os"
	"path/filepath"
	"runtime/debug"

	"github.com/bbva/qed/balloon"
	"github.com/bbva/qed/crypto/hashing"

	"verif/harness/symhash"
	"verif/harness/trace"
)

func init() { drivers["balloonbig"] = balloonBigDriver }

// addBig inserts one large bulk and records a sample of the returned snapshots.
func (r *brun) addBig(bulk [][]byte, rng *rand.Rand) error {
	ds := make([]hashing.Digest, len(bulk))
	for i := range bulk {
		ds[i] = bulk[i]
	}
	snaps, muts, err := r.b.AddBulk(ds)
	if err != nil {
		return err
	}
	shaSnaps, shaMuts, err := r.shaB.AddBulk(ds)
	if err != nil {
		return err
	}
	if err = r.store.Mutate(muts, nil); err != nil {
		return err
	}
	if err = r.shaSt.Mutate(shaMuts, nil); err != nil {
		return err
	}
	ev := trace.Ev{"a": "addbig", "nsnaps": len(snaps)}
	bl := make([]interface{}, len(bulk))
	for i := range bulk {
		bl[i] = hx(bulk[i])
	}
	ev["bulk"] = bl
	pick := map[int]bool{0: true, len(snaps) - 1: true}
	if len(snaps) > 2 {
		pick[rng.Intn(len(snaps))] = true
	}
	sl := []interface{}{}
	for i, s := range snaps {
		r.snaps = append(r.snaps, bsnap{s, shaSnaps[i]})
		if !pick[i] {
			continue
		}
		shaOK := shaMatches(s.HistoryDigest, shaSnaps[i].HistoryDigest) &&
			shaMatches(s.HyperDigest, shaSnaps[i].HyperDigest) && s.Version == shaSnaps[i].Version
		sl = append(sl, trace.Ev{"i": i + 1, "v": s.Version, "e": hx(s.EventDigest),
			"hist": r.enc.Enc(s.HistoryDigest), "hyper": r.enc.Enc(s.HyperDigest), "sha": shaOK})
	}
	ev["snaps"] = sl
	r.log = append(r.log, bulk...)
	r.tw.Emit(ev)
	return nil
}

func prefix20(d []byte) uint32 { return uint32(d[0])<<12 | uint32(d[1])<<4 | uint32(d[2])>>4 }

func balloonBigDriver(args []string) error {
	fs := flag.NewFlagSet("balloonbig", flag.ExitOnError)
	out, seed, tier := commonFlags(fs)
	files := fs.Int("files", 1, "number of trace files")
	first := fs.Int("fi", 0, "index of the first trace file")
	fs.Parse(args)
	debug.SetGCPercent(-1)
	thorough := *tier == "thorough"
	tmp, err := ioutil.TempDir("", "drvbig")
	if err != nil {
		return err
	}
	defer os.RemoveAll(tmp)
	stats := map[string]int{}
	for fi := *first; fi < *first+*files; fi++ {
		rng := rand.New(rand.NewSource(*seed*4241 + int64(fi)))
		// tile counts at the reopen points: page boundary cases first, then anything
		var targets []int
		switch fi % 4 {
		case 0:
			targets = []int{1000 + 1 + rng.Intn(998)}
		case 1:
			targets = []int{1001}
		case 2:
			targets = []int{1000, 1000 + 1 + rng.Intn(400)}
		default:
			targets = []int{999, 2000 + 1 + rng.Intn(300)}
		}
		if thorough && fi%2 == 0 {
			targets = append(targets, targets[len(targets)-1]+700+rng.Intn(900))
		}
		// the events: random digests (distinct 20-bit prefixes almost always), enough for all targets
		total := targets[len(targets)-1] + 40
		evs := make([][]byte, 0, total)
		for len(evs) < total {
			k := make([]byte, 32)
			rng.Read(k)
			evs = append(evs, k)
		}
		tw, err := trace.Create(filepath.Join(*out, fmt.Sprintf("big_%02d.ndjson", fi)))
		if err != nil {
			return err
		}
		dw, err := trace.Create(filepath.Join(*out, fmt.Sprintf("big_%02d.defs.ndjson", fi)))
		if err != nil {
			return err
		}
		keys := trace.Ev{}
		for _, k := range evs {
			keys[hx(k)] = bitsOf(k)
		}
		tw.Emit(trace.Ev{"a": "universe", "keys": keys})
		enc := symhash.NewEncoder(symhash.Global, func(def symhash.Term) { dw.Emit(def) })
		dir, err := ioutil.TempDir(tmp, "big")
		if err != nil {
			return err
		}
		tw.Emit(trace.Ev{"a": "reset", "store": "rocks"})
		r, err := newBrun(tw, enc, "rocks", dir)
		if err != nil {
			return err
		}
		next := 0
		tiles := map[uint32]bool{}
		for _, target := range targets {
			// fill up to exactly `target` tiles with large bulks
			for len(tiles) < target {
				bulk := [][]byte{}
				lim := 200 + rng.Intn(300)
				for len(bulk) < lim && len(tiles) < target && next < len(evs) {
					bulk = append(bulk, evs[next])
					tiles[prefix20(evs[next])] = true
					next++
				}
				if len(bulk) == 0 {
					break
				}
				if err := r.addBig(bulk, rng); err != nil {
					return fmt.Errorf("addbig: %v", err)
				}
			}
			tw.Emit(trace.Ev{"a": "forkinfo", "tiles": len(tiles), "events": len(r.log)})
			if err := r.reopen(); err != nil {
				return fmt.Errorf("reopen: %v", err)
			}
			// the restart must be invisible: insert and query again
			for t := 0; t < 4 && next < len(evs); t++ {
				ln := 1
				if t%2 == 1 {
					ln = 2 + rng.Intn(3)
				}
				if next+ln > len(evs) {
					ln = len(evs) - next
				}
				bulk := evs[next : next+ln]
				for _, d := range bulk {
					tiles[prefix20(d)] = true
				}
				next += ln
				if err := r.add(bulk, ln == 1 && t == 0); err != nil {
					return fmt.Errorf("add after reopen: %v", err)
				}
			}
			n := uint64(len(r.log))
			for t := 0; t < 5; t++ {
				i := uint64(rng.Int63n(int64(n)))
				if t == 0 {
					i = n - 1
				}
				q := i + uint64(rng.Int63n(int64(n-i)))
				r.member(r.log[i], q, t == 1)
			}
			e := n - 1 - uint64(rng.Intn(3))
			r.incr(uint64(rng.Int63n(int64(e+1))), e, nil, 0, rng)
			stats["reopens"]++
		}
		stats["events"] += len(r.log)
		stats["queries"] += r.queries
		r.close()
		os.RemoveAll(dir)
		tw.Close()
		dw.Close()
		stats["lines"] += tw.Lines
		stats["defs"] += dw.Lines
	}
	b, _ := json.Marshal(stats)
	fmt.Println(string(b))
	return nil
}

var _ = balloon.NewBalloon
