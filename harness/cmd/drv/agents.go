package main

// agents driver (C19): the REAL auditor / monitor / publisher task factories (verif hook) inside a
// real gossip agent with its real BatchProcessor, a real client.HTTPClient talking to the real
// apihttp handlers of a real single-node RaftNode, a recording notifier and snapshot store.
// Every batch is delivered honest or with ONE alteration (of a gossiped snapshot, of the stored
// snapshot, or of the log's answer); alerts and published batches are logged for Trace_Agents.tla.

import (
	"encoding/json"
	"errors"
	"flag"
	"fmt"
	"io/ioutil"
	"math/rand"
	"net/http/httptest"
	"os"
	"path/filepath"
	"sync"
	"time"

	"github.com/bbva/qed/api/apihttp"
	"github.com/bbva/qed/balloon"
	"github.com/bbva/qed/client"
	"github.com/bbva/qed/cmd"
	"github.com/bbva/qed/consensus"
	"github.com/bbva/qed/crypto/hashing"
	"github.com/bbva/qed/gossip"
	"github.com/bbva/qed/protocol"

	"verif/harness/qcluster"
	"verif/harness/trace"
)

func init() { drivers["agents"] = agentsDriver }

// tamperApi alters the answers of an honest node
type tamperApi struct {
	*consensus.RaftNode
	mu   sync.Mutex
	mode string
	alt  hashing.Digest // another inserted digest
}

func (t *tamperApi) set(m string) { t.mu.Lock(); t.mode = m; t.mu.Unlock() }
func (t *tamperApi) get() string  { t.mu.Lock(); defer t.mu.Unlock(); return t.mode }

func flipFirst(m map[string]hashing.Digest) {
	ks := []string{}
	for k := range m {
		ks = append(ks, k)
	}
	if len(ks) == 0 {
		return
	}
	k := ks[0]
	for _, x := range ks {
		if x < k {
			k = x
		}
	}
	d := append(hashing.Digest{}, m[k]...)
	d[0] ^= 0x55
	m[k] = d
}

func (t *tamperApi) QueryDigestMembershipConsistency(d hashing.Digest, v uint64) (*balloon.MembershipProof, error) {
	switch t.get() {
	case "log_error":
		return nil, errors.New("log refuses to answer")
	case "log_other_event":
		return t.RaftNode.QueryDigestMembershipConsistency(t.alt, v)
	}
	p, err := t.RaftNode.QueryDigestMembershipConsistency(d, v)
	if err != nil || p == nil {
		return p, err
	}
	switch t.get() {
	case "log_claims_absent":
		p.Exists = false
	case "log_proof_history_entry":
		if p.HistoryProof != nil {
			for k, val := range p.HistoryProof.AuditPath {
				nv := append(hashing.Digest{}, val...)
				nv[0] ^= 0x55
				p.HistoryProof.AuditPath[k] = nv
				break
			}
		}
	case "log_proof_hyper_entry":
		flipFirst(p.HyperProof.AuditPath)
	}
	return p, nil
}

func (t *tamperApi) QueryConsistency(s, e uint64) (*balloon.IncrementalProof, error) {
	if t.get() == "log_error" {
		return nil, errors.New("log refuses to answer")
	}
	p, err := t.RaftNode.QueryConsistency(s, e)
	if err == nil && t.get() == "log_path_entry" {
		for k, val := range p.AuditPath {
			nv := append(hashing.Digest{}, val...)
			nv[0] ^= 0x55
			p.AuditPath[k] = nv
			break
		}
	}
	return p, err
}

type memStore struct {
	mu     sync.Mutex
	snaps  map[uint64]*protocol.SignedSnapshot
	tamper string
	put    []*protocol.BatchSnapshots
}

func (m *memStore) PutBatch(b *protocol.BatchSnapshots) error {
	m.mu.Lock()
	defer m.mu.Unlock()
	m.put = append(m.put, b)
	return nil
}
func (m *memStore) PutSnapshot(uint64, *protocol.SignedSnapshot) error      { return nil }
func (m *memStore) GetRange(s, e uint64) ([]protocol.SignedSnapshot, error) { return nil, nil }
func (m *memStore) DeleteRange(s, e uint64) error                           { return nil }
func (m *memStore) Count() (uint64, error)                                  { return uint64(len(m.snaps)), nil }
func (m *memStore) GetSnapshot(v uint64) (*protocol.SignedSnapshot, error) {
	m.mu.Lock()
	defer m.mu.Unlock()
	s, ok := m.snaps[v]
	if !ok || m.tamper == "store_missing" {
		return nil, errors.New("snapshot not found")
	}
	cp := *s.Snapshot
	if m.tamper == "store_hyper" {
		cp.HyperDigest = append(hashing.Digest{}, cp.HyperDigest...)
		cp.HyperDigest[0] ^= 0x55
	}
	return &protocol.SignedSnapshot{Snapshot: &cp, Signature: s.Signature}, nil
}

type memNotifier struct {
	mu     sync.Mutex
	alerts []string
}

func (n *memNotifier) Alert(msg string) error {
	n.mu.Lock()
	n.alerts = append(n.alerts, msg)
	n.mu.Unlock()
	return nil
}
func (n *memNotifier) Start()     {}
func (n *memNotifier) Stop()      {}
func (n *memNotifier) count() int { n.mu.Lock(); defer n.mu.Unlock(); return len(n.alerts) }

type syncTM struct {
	mu   sync.Mutex
	errs []string
	n    int
}

func (t *syncTM) Start()   {}
func (t *syncTM) Stop()    {}
func (t *syncTM) Len() int { return 0 }
func (t *syncTM) Add(task gossip.Task) error {
	err := task()
	t.mu.Lock()
	t.n++
	if err != nil {
		t.errs = append(t.errs, truncate(err.Error(), 100))
	} else {
		t.errs = append(t.errs, "")
	}
	t.mu.Unlock()
	return nil
}

func agentsDriver(args []string) error {
	fs := flag.NewFlagSet("agents", flag.ExitOnError)
	out, seed, tier := commonFlags(fs)
	files := fs.Int("files", 1, "")
	first := fs.Int("fi", 0, "")
	withEmpty := fs.Bool("empty", true, "also deliver an empty batch")
	fs.Parse(args)
	thorough := *tier == "thorough"
	tmp, err := ioutil.TempDir("", "drvagents")
	if err != nil {
		return err
	}
	defer os.RemoveAll(tmp)
	stats := map[string]int{}
	for fi := *first; fi < *first+*files; fi++ {
		rng := rand.New(rand.NewSource(*seed*275604541 + int64(fi)))
		tw, err := trace.Create(filepath.Join(*out, fmt.Sprintf("agents_%02d.ndjson", fi)))
		if err != nil {
			return err
		}
		node := &qcluster.Node{ID: 1, Dir: filepath.Join(tmp, fmt.Sprintf("n%d", fi))}
		if err := node.Start(qcluster.Opts{Bootstrap: true, Timeout: 300 * time.Millisecond}); err != nil {
			return err
		}
		qcluster.WaitFor(15*time.Second, node.Raft.IsLeader)
		nEvents := 14
		if thorough {
			nEvents = 40
		}
		store := &memStore{snaps: map[uint64]*protocol.SignedSnapshot{}}
		var snaps []*protocol.Snapshot
		for i := 0; i < nEvents; i++ {
			ev := make([]byte, 16)
			rng.Read(ev)
			s, err := node.Raft.Add(ev)
			if err != nil {
				return err
			}
			ps := protocol.Snapshot(*s)
			snaps = append(snaps, &ps)
			store.snaps[s.Version] = &protocol.SignedSnapshot{Snapshot: &ps, Signature: []byte(fmt.Sprintf("sig-%d-%d", fi, s.Version))}
		}
		api := &tamperApi{RaftNode: node.Raft, alt: snaps[0].EventDigest}
		srv := httptest.NewServer(apihttp.NewApiHttp(api))
		newClient := func() *client.HTTPClient {
			qc, err := client.NewHTTPClient(client.SetURLs(srv.URL), client.SetReadPreference(client.Any), client.SetMaxRetries(0),
				client.SetTopologyDiscovery(false), client.SetHealthChecks(false), client.SetAttemptToReviveEndpoints(true),
				client.SetHasherFunction(hashing.NewSha256Hasher))
			if err != nil {
				panic(err)
			}
			return qc
		}
		tw.Emit(trace.Ev{"a": "reset", "events": nEvents})
		uniq := 0
		delivered := map[string]bool{}

		run := func(role string, factory gossip.TaskFactory, scen func(deliver func(tamper string, lo, hi int, mutate func(b *protocol.BatchSnapshots)))) error {
			nt := &memNotifier{}
			tm := &syncTM{}
			agent, err := gossip.NewAgent(gossip.SetNodeName(fmt.Sprintf("%s-%d", role, fi)), gossip.SetRole(role), gossip.SetBindAddr("127.0.0.1:0"),
				gossip.SetQEDClient(newClient()), gossip.SetSnapshotStore(store), gossip.SetNotifier(nt), gossip.SetTasksManager(tm), gossip.SetCache(1<<20))
			if err != nil {
				return err
			}
			bp := gossip.NewBatchProcessor(agent, []gossip.TaskFactory{factory}, nil)
			agent.In.Subscribe(gossip.BatchMessageType, bp, 100)
			deliver := func(tamper string, lo, hi int, mutate func(b *protocol.BatchSnapshots)) {
				b := &protocol.BatchSnapshots{}
				for v := lo; v <= hi; v++ {
					cp := *snaps[v]
					b.Snapshots = append(b.Snapshots, &protocol.SignedSnapshot{Snapshot: &cp, Signature: store.snaps[uint64(v)].Signature})
				}
				if mutate != nil {
					mutate(b)
				}
				if role != "publisher" && len(b.Snapshots) > 0 && b.Snapshots[len(b.Snapshots)-1] != nil {
					// the processor (rightly) drops a batch whose exact content it has already seen: only
					// such a repetition gets a distinguishing signature suffix. An ALTERED copy of an
					// earlier batch keeps the original signatures (agents do not verify them): it is
					// another batch and must be audited
					raw, _ := json.Marshal(b)
					if delivered[role+string(raw)] {
						uniq++
						b.Snapshots[len(b.Snapshots)-1].Signature = append(append([]byte{}, b.Snapshots[len(b.Snapshots)-1].Signature...), []byte(fmt.Sprintf("#%d", uniq))...)
						raw, _ = json.Marshal(b)
					}
					delivered[role+string(raw)] = true
				}
				agent.Qed = newClient() // a failed request marks the only endpoint dead: every delivery gets a fresh client
				api.set(tamper)
				store.mu.Lock()
				store.tamper = tamper
				nput := len(store.put)
				store.mu.Unlock()
				a0, t0 := nt.count(), tm.n
				payload, _ := b.Encode()
				agent.In.Publish(&gossip.Message{Kind: gossip.BatchMessageType, TTL: 1, Payload: payload})
				// the processor runs the task synchronously in its own goroutine: wait for it
				wait := 5 * time.Second
				if tamper == "empty_batch" {
					wait = 300 * time.Millisecond
				}
				qcluster.WaitFor(wait, func() bool { tm.mu.Lock(); defer tm.mu.Unlock(); return tm.n > t0 })
				time.Sleep(5 * time.Millisecond)
				tm.mu.Lock()
				ran := tm.n - t0
				terr := ""
				if ran > 0 {
					terr = tm.errs[len(tm.errs)-1]
				}
				tm.mu.Unlock()
				store.mu.Lock()
				pub := []interface{}{}
				for _, pb := range store.put[nput:] {
					vs := []interface{}{}
					for _, ss := range pb.Snapshots {
						vs = append(vs, ss.Snapshot.Version)
					}
					pub = append(pub, vs)
				}
				store.tamper = ""
				store.mu.Unlock()
				api.set("")
				tw.Emit(trace.Ev{"a": "task", "role": role, "tamper": tamper, "lo": lo, "hi": hi, "ran": ran, "alerts": nt.count() - a0, "err": terr, "published": pub})
				stats["tasks"]++
			}
			scen(deliver)
			bp.Stop()
			return nil
		}
		flip := func(d hashing.Digest) hashing.Digest { n := append(hashing.Digest{}, d...); n[len(n)-1] ^= 1; return n }
		// batches start anywhere in the log, the current (last) version included; in mode "cur" every
		// batch starts at the current version (the proof's current version = the audited snapshot's)
		mode := "rand"
		pick := func() (int, int) {
			lo := rng.Intn(nEvents)
			if mode == "cur" || rng.Intn(5) == 0 {
				lo = nEvents - 1
			}
			hi := lo + rng.Intn(min(4, nEvents-lo))
			return lo, hi
		}
		// ---------------- auditor
		err = run("auditor", cmd.VerifAuditorFactory(), func(deliver func(string, int, int, func(*protocol.BatchSnapshots))) {
			reps := 2
			if thorough {
				reps = 6
			}
			for r := 0; r <= reps; r++ {
				mode = "rand"
				if r == reps {
					mode = "cur" // one pass with every batch starting at the current version
				}
				lo, hi := pick()
				deliver("none", lo, hi, nil)
				// the same batch again, altered, with the original signatures
				switch r % 3 {
				case 0:
					deliver("gossip_history", lo, hi, func(b *protocol.BatchSnapshots) {
						b.Snapshots[0].Snapshot.HistoryDigest = flip(b.Snapshots[0].Snapshot.HistoryDigest)
					})
				case 1:
					deliver("gossip_event", lo, hi, func(b *protocol.BatchSnapshots) {
						b.Snapshots[0].Snapshot.EventDigest = flip(b.Snapshots[0].Snapshot.EventDigest)
					})
				default:
					deliver("gossip_version_up", lo, hi, func(b *protocol.BatchSnapshots) { b.Snapshots[0].Snapshot.Version++ })
				}
				lo, hi = pick()
				deliver("gossip_history", lo, hi, func(b *protocol.BatchSnapshots) {
					b.Snapshots[0].Snapshot.HistoryDigest = flip(b.Snapshots[0].Snapshot.HistoryDigest)
				})
				lo, hi = pick()
				deliver("gossip_hyper", lo, hi, func(b *protocol.BatchSnapshots) {
					b.Snapshots[0].Snapshot.HyperDigest = flip(b.Snapshots[0].Snapshot.HyperDigest)
				})
				lo, hi = pick()
				deliver("gossip_event", lo, hi, func(b *protocol.BatchSnapshots) {
					b.Snapshots[0].Snapshot.EventDigest = flip(b.Snapshots[0].Snapshot.EventDigest)
				})
				lo, hi = pick()
				deliver("gossip_version_up", lo, hi, func(b *protocol.BatchSnapshots) { b.Snapshots[0].Snapshot.Version++ })
				lo, hi = pick()
				if lo > 0 {
					deliver("gossip_version_down", lo, hi, func(b *protocol.BatchSnapshots) { b.Snapshots[0].Snapshot.Version-- })
				}
				for _, tm := range []string{"store_hyper", "store_missing", "log_proof_history_entry", "log_proof_hyper_entry", "log_other_event", "log_claims_absent", "log_error"} {
					lo, hi = pick()
					if tm == "log_proof_history_entry" && lo == 0 {
						lo, hi = 1, 1+rng.Intn(3) // version 0 has an empty history path
					}
					if tm == "log_other_event" && lo == 0 {
						lo, hi = 2, 3
					}
					// make the batch content unique (the processor drops batches it has seen)
					sig := []byte(fmt.Sprintf("%s-%d-%d", tm, r, fi))
					deliver(tm, lo, hi, func(b *protocol.BatchSnapshots) { b.Snapshots[len(b.Snapshots)-1].Signature = sig })
				}
			}
		})
		if err != nil {
			return err
		}
		// ---------------- monitor
		err = run("monitor", cmd.VerifMonitorFactory(), func(deliver func(string, int, int, func(*protocol.BatchSnapshots))) {
			reps := 2
			if thorough {
				reps = 6
			}
			for r := 0; r <= reps; r++ {
				mode = "rand"
				if r == reps {
					mode = "cur" // one pass with every batch starting at the current version
				}
				lo, hi := pick()
				deliver("none", lo, hi, nil)
				// the same batch again, altered, with the original signatures
				deliver("gossip_first_history", lo, hi, func(b *protocol.BatchSnapshots) {
					b.Snapshots[0].Snapshot.HistoryDigest = flip(b.Snapshots[0].Snapshot.HistoryDigest)
				})
				deliver("none", lo, lo, func(b *protocol.BatchSnapshots) { b.Snapshots[0].Signature = []byte(fmt.Sprintf("single-%d", r)) })
				lo, hi = pick()
				deliver("gossip_first_history", lo, hi, func(b *protocol.BatchSnapshots) {
					b.Snapshots[0].Snapshot.HistoryDigest = flip(b.Snapshots[0].Snapshot.HistoryDigest)
				})
				lo, hi = pick()
				deliver("gossip_last_history", lo, hi, func(b *protocol.BatchSnapshots) {
					l := b.Snapshots[len(b.Snapshots)-1].Snapshot
					l.HistoryDigest = flip(l.HistoryDigest)
				})
				lo, hi = pick()
				deliver("gossip_hyper", lo, hi, func(b *protocol.BatchSnapshots) {
					b.Snapshots[0].Snapshot.HyperDigest = flip(b.Snapshots[0].Snapshot.HyperDigest)
				})
				lo, hi = pick()
				if hi+1 < nEvents {
					deliver("gossip_last_version_up", lo, hi, func(b *protocol.BatchSnapshots) { b.Snapshots[len(b.Snapshots)-1].Snapshot.Version++ })
				}
				for _, tm := range []string{"log_path_entry", "log_error"} {
					lo, hi = pick()
					sig := []byte(fmt.Sprintf("%s-%d-%d", tm, r, fi))
					deliver(tm, lo, hi, func(b *protocol.BatchSnapshots) { b.Snapshots[len(b.Snapshots)-1].Signature = sig })
				}
			}
		})
		if err != nil {
			return err
		}
		mode = "rand"
		// ---------------- publisher: redelivery patterns
		err = run("publisher", cmd.VerifPublisherFactory(), func(deliver func(string, int, int, func(*protocol.BatchSnapshots))) {
			deliver("none", 0, 2, nil)
			deliver("none", 1, 3, nil) // overlaps: only version 3 is new
			deliver("none", 0, 3, nil) // nothing new
			deliver("none", 4, 4, nil)
			deliver("none", 2, 6, nil)
			for r := 0; r < 4; r++ {
				lo, hi := pick()
				deliver("none", lo, hi, nil)
			}
		})
		if err != nil {
			return err
		}
		if *withEmpty {
			// an empty batch (a hostile or buggy peer can send one) must not crash the agent
			tw.Emit(trace.Ev{"a": "empty_batch_begin"})
			for _, f := range []struct {
				role string
				tf   gossip.TaskFactory
			}{{"auditor", cmd.VerifAuditorFactory()}, {"monitor", cmd.VerifMonitorFactory()}, {"publisher", cmd.VerifPublisherFactory()}} {
				run(f.role, f.tf, func(deliver func(string, int, int, func(*protocol.BatchSnapshots))) {
					deliver("empty_batch", 0, 0, func(b *protocol.BatchSnapshots) { b.Snapshots = b.Snapshots[:0] })
					deliver("empty_batch", 0, 1, func(b *protocol.BatchSnapshots) { b.Snapshots[1] = nil })
					deliver("empty_batch", 0, 1, func(b *protocol.BatchSnapshots) { b.Snapshots[0].Snapshot = nil })
				})
			}
			tw.Emit(trace.Ev{"a": "empty_batch_end"})
		}
		srv.Close()
		node.Stop()
		tw.Close()
		stats["lines"] += tw.Lines
	}
	b, _ := json.Marshal(stats)
	fmt.Println(string(b))
	return nil
}

func min(a, b int) int {
	if a < b {
		return a
	}
	return b
}
