package main

// adversary driver (C02, C12): genuine answers of a real balloon are altered, recombined and
// forged following a mutation grammar, pushed through the real JSON decoder and the real
// client-side verifier in a guarded goroutine, and the outcome (accept / reject / panic@site /
// timeout) is logged together with the full altered answer, so that TLC can decide from the
// specification whether the claim the verifier accepted is true.

import (
	"encoding/json"
	"flag"
	"fmt"
	"github.com/bbva/qed/client"
	"io/ioutil"
	"math/bits"
	"math/rand"
	"net/http"
	"net/http/httptest"
	"os"
	"path/filepath"
	"runtime"
	"runtime/debug"
	"sort"
	"strings"
	"time"

	"github.com/bbva/qed/balloon"
	"github.com/bbva/qed/crypto/hashing"
	"github.com/bbva/qed/protocol"

	"verif/harness/symhash"
	"verif/harness/trace"
)

func init() { drivers["adversary"] = adversaryDriver }

type outcome struct {
	Res  string // "acc" | "rej" | "panic" | "timeout" | "decode-error"
	Site string
	Msg  string
}

// panicSite returns the innermost QED function on the panicking stack.
func panicSite() string {
	pcs := make([]uintptr, 64)
	n := runtime.Callers(3, pcs)
	frames := runtime.CallersFrames(pcs[:n])
	for {
		f, more := frames.Next()
		if strings.Contains(f.Function, "github.com/bbva/qed/") {
			fn := strings.TrimPrefix(f.Function, "github.com/bbva/qed/")
			return fn
		}
		if !more {
			break
		}
	}
	return "unknown"
}

// runGuarded runs f (which returns accept/reject) with panic capture and a deadline.
func runGuarded(f func() bool) outcome {
	ch := make(chan outcome, 1)
	go func() {
		defer func() {
			if x := recover(); x != nil {
				ch <- outcome{Res: "panic", Site: panicSite(), Msg: fmt.Sprint(x)}
			}
		}()
		if f() {
			ch <- outcome{Res: "acc"}
		} else {
			ch <- outcome{Res: "rej"}
		}
	}()
	select {
	case o := <-ch:
		return o
	case <-time.After(10 * time.Second):
		return outcome{Res: "timeout"}
	}
}

const clampBase = 1000000000

// clamp keeps numbers inside TLC's 32-bit integers; anything huge is far outside every log
func clamp(v uint64) (uint64, bool) {
	if v >= clampBase {
		return clampBase + v%1000, true
	}
	return v, false
}

type advCtx struct {
	r    *brun
	rng  *rand.Rand
	univ [][]byte
	n    int
}

func cloneMR(m *protocol.MembershipResult) *protocol.MembershipResult {
	c := *m
	c.Hyper = map[string]hashing.Digest{}
	for k, v := range m.Hyper {
		c.Hyper[k] = v
	}
	c.History = map[string]hashing.Digest{}
	for k, v := range m.History {
		c.History[k] = v
	}
	c.KeyDigest = append(hashing.Digest(nil), m.KeyDigest...)
	return &c
}

func sortedKeys(m map[string]hashing.Digest) []string {
	ks := make([]string, 0, len(m))
	for k := range m {
		ks = append(ks, k)
	}
	sort.Strings(ks)
	return ks
}

var malformedKeys = []string{"", "abc", "1", "1|", "|1", "1|2|3", "-1|0", "+1|0", " 1|0", "18446744073709551616|0", "0|70000", "0x|1", "1|0x1", "٣|0"}

// emitAdv verifies one altered wire answer for digest d against the snapshots (histV, hypV)
func (a *advCtx) emitAdv(kind string, mr *protocol.MembershipResult, d []byte, histV, hypV int) {
	r := a.r
	raw, err := json.Marshal(mr)
	ev := trace.Ev{"a": "adv", "kind": kind, "d": hx(d), "histv": histV, "hypv": hypV}
	if err != nil {
		return
	}
	snap := &balloon.Snapshot{EventDigest: d, HistoryDigest: r.snaps[histV].s.HistoryDigest, HyperDigest: r.snaps[hypV].s.HyperDigest, Version: uint64(histV)}
	var back *protocol.MembershipResult
	o := runGuarded(func() bool {
		if err := json.Unmarshal(raw, &back); err != nil {
			panic("decode-error")
		}
		return protocol.ToBalloonProof(back, symhash.New).DigestVerify(d, snap)
	})
	if o.Res == "panic" && o.Msg == "decode-error" {
		o = outcome{Res: "decode-error"}
	}
	ev["res"] = o.Res
	if o.Site != "" {
		ev["site"] = o.Site
		ev["msg"] = truncate(o.Msg, 160)
	}
	av, c1 := clamp(mr.ActualVersion)
	qv, c2 := clamp(mr.QueryVersion)
	cv, c3 := clamp(mr.CurrentVersion)
	ev["exists"] = mr.Exists
	ev["actual"] = av
	ev["query"] = qv
	ev["current"] = cv
	ev["clamped"] = c1 || c2 || c3
	ev["key"] = hx(mr.KeyDigest)
	ev["hyper"] = r.pathTerms(mr.Hyper)
	ev["history"] = r.pathTerms(mr.History)
	r.tw.Emit(ev)
	r.queries++
}

func truncate(s string, n int) string {
	if len(s) > n {
		return s[:n]
	}
	return s
}

func (a *advCtx) genuine(d []byte, q uint64) *protocol.MembershipResult {
	var proof *balloon.MembershipProof
	var err error
	pan, _ := guard(func() { proof, err = a.r.b.QueryDigestMembershipConsistency(d, q) })
	if pan || err != nil || proof == nil {
		return nil
	}
	return cloneMR(protocol.ToMembershipResult(nil, proof))
}

func (a *advCtx) knownDigest() hashing.Digest {
	r := a.r
	switch a.rng.Intn(4) {
	case 0:
		return r.snaps[a.rng.Intn(len(r.snaps))].s.HistoryDigest
	case 1:
		return r.snaps[a.rng.Intn(len(r.snaps))].s.HyperDigest
	case 2:
		return a.univ[a.rng.Intn(len(a.univ))]
	default:
		// a frozen leaf hash: take it from some genuine path
		g := a.genuine(r.log[a.rng.Intn(len(r.log))], uint64(len(r.log)-1))
		if g != nil {
			for _, k := range sortedKeys(g.History) {
				return g.History[k]
			}
		}
		return r.snaps[0].s.HistoryDigest
	}
}

// mutate one genuine answer in every way of the grammar
func (a *advCtx) attack(d []byte, q uint64) {
	r := a.r
	n := len(r.log)
	cur := n - 1
	g := a.genuine(d, q)
	if g == nil {
		return
	}
	qv := int(q)
	if qv > cur {
		qv = cur
	}
	rng := a.rng
	emit := func(kind string, m *protocol.MembershipResult, dd []byte) { a.emitAdv(kind, m, dd, qv, cur) }

	emit("genuine", g, d)

	// --- claim of absence / relabelled existence
	m := cloneMR(g)
	m.Exists = !g.Exists
	emit("flip_exists", m, d)

	// --- version fields
	for _, v := range []uint64{0, g.ActualVersion + 1, g.QueryVersion + 1, uint64(cur) + 1, 1 << 63, ^uint64(0), uint64(rng.Intn(n))} {
		m = cloneMR(g)
		m.ActualVersion = v
		emit("actual", m, d)
		if rng.Intn(2) == 0 {
			m2 := cloneMR(m)
			m2.Exists = false
			emit("actual+absent", m2, d)
		}
	}
	for _, v := range []uint64{0, g.QueryVersion + 1, uint64(cur) + 1, 1 << 63, uint64(rng.Intn(n))} {
		m = cloneMR(g)
		m.QueryVersion = v
		emit("query", m, d)
	}
	if g.ActualVersion > 0 {
		m = cloneMR(g)
		m.QueryVersion = g.ActualVersion - 1 // actual > query: the history check is skipped by the pinned verifier
		emit("query_below_actual", m, d)
	}
	m = cloneMR(g)
	m.CurrentVersion = 1 << 63
	emit("current", m, d)

	// --- version grid: the client checks against the snapshot it trusts for the version the answer
	//     names, so every relabelled (query, actual) pair is verified against the authentic history
	//     digest of *that* query version (all pairs with actual > query, a sample of the others)
	for q2 := 0; q2 <= cur; q2++ {
		for a2 := 0; a2 <= cur; a2++ {
			if uint64(q2) == g.QueryVersion && uint64(a2) == g.ActualVersion {
				continue
			}
			inCap := a2 > q2 && a2 <= 2*q2+1 // later than the query but inside the capacity of its tree
			switch {
			case uint64(a2) == g.ActualVersion && a2 > q2: // genuine path, query lowered below the insertion
			case uint64(a2) == g.ActualVersion:
				if rng.Intn(3) != 0 {
					continue
				}
			case inCap:
				if rng.Intn(4) != 0 {
					continue
				}
			default:
				if rng.Intn(16) != 0 {
					continue
				}
			}
			m = cloneMR(g)
			m.QueryVersion, m.ActualVersion = uint64(q2), uint64(a2)
			a.emitAdv("grid", m, d, q2, cur)
		}
	}

	// --- another digest: proof for d presented for d2 (inserted or never inserted, incl. digests
	//     sharing the whole prefix down to the shortcut leaf)
	others := [][]byte{}
	for _, p := range []int{255, 250, 240, 233, 232, 231, 100, 30, 24, 23, 8, 1, 0} {
		others = append(others, flipBit(d, p))
	}
	others = append(others, a.univ[rng.Intn(len(a.univ))], r.log[rng.Intn(n)])
	for _, d2 := range others {
		if string(d2) == string(d) {
			continue
		}
		if !a.inUniverse(d2) {
			continue
		}
		m = cloneMR(g)
		m.KeyDigest = d2
		emit("other_digest", m, d2)
		m2 := cloneMR(m)
		m2.Exists = false
		emit("other_digest+absent", m2, d2)
		if g.ActualVersion > 0 {
			m3 := cloneMR(m)
			m3.QueryVersion = g.ActualVersion - 1
			emit("other_digest+query_below_actual", m3, d2)
			for q2 := 0; q2 < int(g.ActualVersion) && q2 <= cur; q2++ {
				m3 = cloneMR(m)
				m3.QueryVersion = uint64(q2)
				a.emitAdv("other_digest+query_below_actual@snap", m3, d2, q2, cur)
			}
		}
		m4 := cloneMR(g) // key digest left as the original one
		emit("other_digest_key_kept", m4, d2)
	}
	// --- the path supplies a node ON the way from the root to the leaf (a collapsed subtree):
	//     every node hash the adversary knows (siblings of other genuine proofs at the same
	//     version, the root = the public snapshot digest) is placed at its own position, the
	//     entries below it are dropped, and the answer is presented for the genuine digest, for
	//     prefix-sharing other digests and for other claimed versions under the same ancestor
	if g.Exists && g.ActualVersion <= g.QueryVersion && int(g.QueryVersion) <= cur {
		qv2 := g.QueryVersion
		known := map[string]hashing.Digest{}
		for i := 0; i <= int(qv2) && i < n; i++ {
			if og := a.genuine(r.log[i], qv2); og != nil {
				for k, v := range og.History {
					known[k] = v
				}
			}
		}
		depth := bits.Len64(qv2)
		known[fmt.Sprintf("0|%d", depth)] = r.snaps[qv2].s.HistoryDigest
		for h := 1; h <= depth; h++ {
			idx := (g.ActualVersion >> uint(h)) << uint(h)
			key := fmt.Sprintf("%d|%d", idx, h)
			hv, ok := known[key]
			if !ok {
				continue
			}
			collapsed := func(keepBelow bool) *protocol.MembershipResult {
				m := cloneMR(g)
				if !keepBelow {
					for k := range m.History {
						var ki, kh uint64
						if _, err := fmt.Sscanf(k, "%d|%d", &ki, &kh); err == nil && kh < uint64(h) && ki >= idx && ki < idx+(1<<uint(h)) {
							delete(m.History, k)
						}
					}
				}
				m.History[key] = hv
				return m
			}
			for _, keep := range []bool{false, true} {
				emit("ancestor_in_path", collapsed(keep), d)
				for _, p := range []int{255, 250, 240, 233, 232, 100, 30, 24} {
					d2 := flipBit(d, p)
					if !a.inUniverse(d2) {
						continue
					}
					m := collapsed(keep)
					m.KeyDigest = d2
					emit("ancestor_in_path+other_digest", m, d2)
				}
				// another leaf under the same ancestor claimed as the version of the event
				for _, a2 := range []uint64{idx, idx + (1 << uint(h)) - 1, g.ActualVersion ^ 1} {
					if a2 != g.ActualVersion && a2 <= qv2 {
						m := collapsed(keep)
						m.ActualVersion = a2
						emit("ancestor_in_path+actual", m, d)
					}
				}
			}
		}
	}

	// --- key digest of wrong length
	for _, ln := range []int{0, 1, 31, 33, 64} {
		m = cloneMR(g)
		m.KeyDigest = make([]byte, ln)
		emit("keylen", m, d)
	}

	// --- audit path entries
	for _, which := range []string{"history", "hyper"} {
		pick := func(m *protocol.MembershipResult) map[string]hashing.Digest {
			if which == "history" {
				return m.History
			}
			return m.Hyper
		}
		keys := sortedKeys(pick(g))
		// drop each entry (all for short paths, sample otherwise)
		for i, k := range keys {
			if len(keys) > 8 && rng.Intn(len(keys)) > 6 && i != 0 && i != len(keys)-1 {
				continue
			}
			m = cloneMR(g)
			delete(pick(m), k)
			emit("drop_"+which, m, d)
		}
		// replace entries by other known digests
		for t := 0; t < 4 && len(keys) > 0; t++ {
			k := keys[rng.Intn(len(keys))]
			m = cloneMR(g)
			pick(m)[k] = a.knownDigest()
			emit("replace_"+which, m, d)
		}
		// digests of wrong length inside the path
		if len(keys) > 0 {
			for _, ln := range []int{0, 31, 33} {
				m = cloneMR(g)
				pick(m)[keys[rng.Intn(len(keys))]] = make([]byte, ln)
				emit("entrylen_"+which, m, d)
			}
		}
		// extra entries: malformed and well-formed-but-unused keys
		for _, mk := range malformedKeys {
			m = cloneMR(g)
			pick(m)[mk] = a.knownDigest()
			emit("extra_"+which, m, d)
		}
		// rename: move an entry to a malformed alias of its key
		if len(keys) > 0 {
			k := keys[rng.Intn(len(keys))]
			for _, alias := range []string{"+" + k, k + "|9", " " + k} {
				m = cloneMR(g)
				pick(m)[alias] = pick(m)[k]
				delete(pick(m), k)
				emit("rename_"+which, m, d)
			}
		}
		// empty and nil maps
		m = cloneMR(g)
		if which == "history" {
			m.History = map[string]hashing.Digest{}
		} else {
			m.Hyper = map[string]hashing.Digest{}
		}
		emit("empty_"+which, m, d)
		m = cloneMR(g)
		if which == "history" {
			m.History = nil
		} else {
			m.Hyper = nil
		}
		emit("nil_"+which, m, d)
	}
	// hyper path with more than 256 entries
	m = cloneMR(g)
	for i := 0; i < 300; i++ {
		m.Hyper[fmt.Sprintf("0x%064x|%d", i, i%256)] = a.knownDigest()
	}
	emit("hyper_oversized", m, d)

	// --- recombination: hyper part of this answer, history part of another genuine answer
	for t := 0; t < 3; t++ {
		d2 := r.log[rng.Intn(n)]
		g2 := a.genuine(d2, uint64(rng.Intn(n)))
		if g2 == nil {
			continue
		}
		m = cloneMR(g)
		m.History = g2.History
		emit("recombine_history", m, d)
		m = cloneMR(g)
		m.History = g2.History
		m.ActualVersion = g2.ActualVersion
		m.QueryVersion = g2.QueryVersion
		emit("recombine_history+versions", m, d)
		m = cloneMR(g2)
		m.Hyper = g.Hyper
		m.KeyDigest = g.KeyDigest
		emit("recombine_hyper", m, d)
	}

	// --- wrong snapshots
	for t := 0; t < 3; t++ {
		hv, yv := rng.Intn(n), rng.Intn(n)
		a.emitAdv("wrong_snapshot", cloneMR(g), d, hv, yv)
	}
}

func (a *advCtx) inUniverse(d []byte) bool {
	for _, u := range a.univ {
		if string(u) == string(d) {
			return true
		}
	}
	return false
}

// attackIncr alters a genuine consistency proof
func (a *advCtx) attackIncr(s, e uint64) {
	r := a.r
	proof, err := r.b.QueryConsistency(s, e)
	if err != nil {
		return
	}
	g := protocol.ToIncrementalResponse(proof)
	n := len(r.log)
	clone := func() *protocol.IncrementalResponse {
		c := &protocol.IncrementalResponse{Start: g.Start, End: g.End, AuditPath: map[string]hashing.Digest{}}
		for k, v := range g.AuditPath {
			c.AuditPath[k] = v
		}
		return c
	}
	emit := func(kind string, m *protocol.IncrementalResponse, sv, evn int) {
		raw, _ := json.Marshal(m)
		var back *protocol.IncrementalResponse
		o := runGuarded(func() bool {
			if err := json.Unmarshal(raw, &back); err != nil {
				panic("decode-error")
			}
			return protocol.ToIncrementalProof(back, symhash.New).Verify(
				r.snaps[sv].s, r.snaps[evn].s) // the whole authentic snapshots, as a client holds them
		})
		if o.Res == "panic" && o.Msg == "decode-error" {
			o = outcome{Res: "decode-error"}
		}
		ms, c1 := clamp(m.Start)
		me, c2 := clamp(m.End)
		ev := trace.Ev{"a": "advinc", "kind": kind, "s": ms, "e": me, "sv": sv, "ev": evn, "clamped": c1 || c2,
			"res": o.Res, "path": r.pathTerms(m.AuditPath)}
		if o.Site != "" {
			ev["site"] = o.Site
			ev["msg"] = truncate(o.Msg, 160)
		}
		r.tw.Emit(ev)
		r.queries++
	}
	emit("genuine", clone(), int(s), int(e))
	keys := sortedKeys(g.AuditPath)
	for _, k := range keys {
		m := clone()
		delete(m.AuditPath, k)
		emit("drop", m, int(s), int(e))
		m = clone()
		m.AuditPath[k] = a.knownDigest()
		emit("replace", m, int(s), int(e))
	}
	for _, mk := range malformedKeys {
		m := clone()
		m.AuditPath[mk] = a.knownDigest()
		emit("extra", m, int(s), int(e))
	}
	for _, v := range []uint64{0, s + 1, e + 1, uint64(n), 1 << 63, ^uint64(0)} {
		m := clone()
		m.Start = v
		emit("start", m, int(s), int(e))
		m = clone()
		m.End = v
		emit("end", m, int(s), int(e))
	}
	m := clone()
	m.Start, m.End = e, s
	emit("swapped", m, int(s), int(e))
	m = clone()
	m.AuditPath = nil
	emit("nil", m, int(s), int(e))
	for t := 0; t < 3; t++ {
		emit("wrong_snapshot", clone(), a.rng.Intn(n), a.rng.Intn(n))
	}
}

// rawBodies: the real HTTP client is given arbitrary 200-OK bodies by a (hostile) server for its
// proof requests; whatever it returns is then verified against authentic snapshots. Nothing may
// panic or hang, and nothing degenerate may be accepted.
func (a *advCtx) rawBodies() {
	r := a.r
	bodies := []string{"null", "{}", "[]", "true", "0", "\"x\"", "", "{", "{\"Exists\":true}", "{\"Hyper\":null,\"History\":null,\"Exists\":true,\"KeyDigest\":null}",
		"{\"Start\":0,\"End\":0,\"AuditPath\":null}", "{\"AuditPath\":{\"0|0\":null}}", "nul", "[null]", "{\"Exists\":\"yes\"}"}
	cur := uint64(len(r.log) - 1)
	d := r.log[len(r.log)-1]
	var body string
	srv := httptest.NewServer(http.HandlerFunc(func(w http.ResponseWriter, req *http.Request) {
		w.WriteHeader(200)
		w.Write([]byte(body))
	}))
	defer srv.Close()
	for _, b := range bodies {
		body = b
		for _, ep := range []string{"membership", "incremental"} {
			qc, err := client.NewHTTPClient(client.SetURLs(srv.URL), client.SetReadPreference(client.Any), client.SetMaxRetries(0),
				client.SetTopologyDiscovery(false), client.SetHealthChecks(false), client.SetAttemptToReviveEndpoints(true),
				client.SetHasherFunction(symhash.New))
			if err != nil {
				continue
			}
			stage := "request"
			o := runGuarded(func() bool {
				if ep == "membership" {
					proof, err := qc.MembershipDigest(d, &cur)
					if err != nil || proof == nil {
						return false
					}
					stage = "verify"
					snap := &balloon.Snapshot{EventDigest: d, HistoryDigest: r.snaps[cur].s.HistoryDigest, HyperDigest: r.snaps[cur].s.HyperDigest, Version: cur}
					ok, _ := qc.MembershipVerify(d, proof, snap)
					return ok
				}
				proof, err := qc.Incremental(0, cur)
				if err != nil || proof == nil {
					return false
				}
				stage = "verify"
				ok, _ := qc.IncrementalVerify(proof, r.snaps[0].s, r.snaps[cur].s)
				return ok && cur > 0
			})
			ev := trace.Ev{"a": "advraw", "endpoint": ep, "body": truncate(b, 60), "res": o.Res, "stage": stage}
			if o.Site != "" {
				ev["site"], ev["msg"] = o.Site, truncate(o.Msg, 160)
			}
			r.tw.Emit(ev)
			r.queries++
		}
	}
}

func adversaryDriver(args []string) error {
	fs := flag.NewFlagSet("adversary", flag.ExitOnError)
	out, seed, tier := commonFlags(fs)
	files := fs.Int("files", 1, "number of trace files")
	first := fs.Int("fi", 0, "index of the first trace file")
	fs.Parse(args)
	thorough := *tier == "thorough"
	debug.SetGCPercent(-1)
	tmp, err := ioutil.TempDir("", "drvadv")
	if err != nil {
		return err
	}
	defer os.RemoveAll(tmp)
	stats := map[string]int{}
	for fi := *first; fi < *first+*files; fi++ {
		rng := rand.New(rand.NewSource(*seed*7919 + int64(fi)))
		tw, err := trace.Create(filepath.Join(*out, fmt.Sprintf("adv_%02d.ndjson", fi)))
		if err != nil {
			return err
		}
		dw, err := trace.Create(filepath.Join(*out, fmt.Sprintf("adv_%02d.defs.ndjson", fi)))
		if err != nil {
			return err
		}
		enc := symhash.NewEncoder(symhash.Global, func(def symhash.Term) { dw.Emit(def) })
		// universe: structured keys + their neighbours at every interesting prefix length
		base := makeUniverse(rng, 14)
		u := append([][]byte{}, base...)
		for _, k := range base[:6] {
			for _, p := range []int{255, 250, 240, 233, 232, 231, 100, 30, 24, 23, 8, 1, 0} {
				u = append(u, flipBit(k, p))
			}
		}
		u = dedup(u)
		keys := trace.Ev{}
		for _, k := range u {
			keys[hx(k)] = bitsOf(k)
		}
		tw.Emit(trace.Ev{"a": "universe", "keys": keys})
		budget := 700
		if thorough {
			budget = 4000
		}
		nq := 0
		for nq < budget {
			dir, _ := ioutil.TempDir(tmp, "adv")
			tw.Emit(trace.Ev{"a": "reset", "store": "bplus"})
			r, err := newBrun(tw, enc, "bplus", dir)
			if err != nil {
				return err
			}
			n := 1 + rng.Intn(10)
			if rng.Intn(3) == 0 {
				n = 8 + rng.Intn(24)
			}
			if n > len(base) {
				n = len(base)
			}
			perm := rng.Perm(len(base))
			for i := 0; i < n; {
				ln := 1 + rng.Intn(3)
				if i+ln > n {
					ln = n - i
				}
				bulk := [][]byte{}
				for j := 0; j < ln; j++ {
					if rng.Intn(8) == 0 && i > 0 {
						bulk = append(bulk, r.log[rng.Intn(len(r.log))]) // duplicate
					} else {
						bulk = append(bulk, base[perm[i+j]])
					}
				}
				if err := r.add(bulk, ln == 1 && rng.Intn(2) == 0); err != nil {
					return err
				}
				i += ln
			}
			a := &advCtx{r: r, rng: rng, univ: u, n: len(r.log)}
			for t := 0; t < 3; t++ {
				d := r.log[rng.Intn(len(r.log))]
				a.attack(d, uint64(rng.Intn(len(r.log))))
			}
			a.attack(r.log[len(r.log)-1], uint64(len(r.log)-1))
			// a never inserted digest
			for t := 0; t < 2; t++ {
				d := u[rng.Intn(len(u))]
				a.attack(d, uint64(len(r.log)-1))
			}
			for t := 0; t < 2; t++ {
				e := uint64(rng.Intn(len(r.log)))
				s := uint64(rng.Intn(int(e) + 1))
				a.attackIncr(s, e)
			}
			if stats["runs"] == 0 {
				a.rawBodies()
			}
			nq += r.queries
			stats["runs"]++
			stats["queries"] += r.queries
			r.close()
			os.RemoveAll(dir)
		}
		tw.Close()
		if dw.Lines == 0 {
			dw.Emit(trace.Ev{"h": []interface{}{}})
		}
		dw.Close()
		stats["lines"] += tw.Lines
		stats["defs"] += dw.Lines
	}
	b, _ := json.Marshal(stats)
	fmt.Println(string(b))
	return nil
}

func dedup(u [][]byte) [][]byte {
	seen := map[string]bool{}
	out := [][]byte{}
	for _, k := range u {
		if !seen[string(k)] {
			seen[string(k)] = true
			out = append(out, k)
		}
	}
	return out
}
