// drv: drivers that run the real QED code and record ndjson traces for TLC.
package main

import (
	"flag"
	"fmt"
	"os"
	"runtime/pprof"
	"strconv"
)

type driver func(args []string) error

var drivers = map[string]driver{}

func envInt(name string, def int64) int64 {
	if v := os.Getenv(name); v != "" {
		if n, err := strconv.ParseInt(v, 10, 64); err == nil {
			return n
		}
	}
	return def
}

func main() {
	if len(os.Args) < 2 {
		fmt.Fprintln(os.Stderr, "usage: drv <driver> [flags]")
		os.Exit(2)
	}
	d, ok := drivers[os.Args[1]]
	if !ok {
		fmt.Fprintln(os.Stderr, "unknown driver", os.Args[1])
		os.Exit(2)
	}
	if pf := os.Getenv("VERIF_CPUPROFILE"); pf != "" {
		f, _ := os.Create(pf)
		pprof.StartCPUProfile(f)
		defer pprof.StopCPUProfile()
	}
	if err := d(os.Args[2:]); err != nil {
		pprof.StopCPUProfile()
		fmt.Fprintln(os.Stderr, "driver error:", err)
		os.Exit(2)
	}
}

func commonFlags(fs *flag.FlagSet) (out *string, seed *int64, tier *string) {
	out = fs.String("out", "", "output directory")
	seed = fs.Int64("seed", envInt("VERIF_SEED", 1), "seed")
	tier = fs.String("tier", "quick", "quick|thorough")
	return
}
