package main

// api driver (C11): a matrix of HTTP requests (method x path x body shape) is fired at the REAL
// handlers (apihttp / mgmthttp muxes) over a real single-node RaftNode hosted in a child process,
// so that an FSM panic is a real process death. After every request the node's version is read;
// at the end a liveness probe (valid add + verified membership) runs and the node is restarted to
// check that the replicated log can be replayed. Trace_Api.tla validates every outcome.

import (
	"bytes"
	"encoding/base64"
	"encoding/json"
	"flag"
	"fmt"
	"io/ioutil"
	"math/rand"
	"net/http"
	"os"
	"path/filepath"
	"strings"
	"sync"
	"sync/atomic"
	"time"

	"verif/harness/symhash"
	"verif/harness/trace"
)

func init() { drivers["api"] = apiDriver }

type apiReq struct {
	Mux    string // api | mgmt
	Method string
	Path   string
	Body   *string // nil = no body
	Shape  string  // descriptor of the body shape
	Valid  int     // number of events a well-formed add carries (0 = not a valid add)
}

func b64(b []byte) string { return base64.StdEncoding.EncodeToString(b) }

func apiMatrix(rng *rand.Rand, cur uint64, known []byte) []apiReq {
	str := func(s string) *string { return &s }
	reqs := []apiReq{}
	methods := []string{"GET", "POST", "HEAD", "PUT", "DELETE"}
	apiPaths := []string{"/healthcheck", "/events", "/events/bulk", "/proofs/membership", "/proofs/digest-membership", "/proofs/incremental", "/info", "/info/shards", "/nope"}
	generic := map[string]*string{
		"absent": nil, "empty": str(""), "garbage": str("\x00\xff{{{"), "truncated": str(`{"Event":"aGVs`), "emptyobj": str("{}"),
		"null": str("null"), "array": str("[]"), "wrongtypes": str(`{"Event":12,"Events":"x","Key":{},"KeyDigest":[1],"Version":"a","Start":"x","End":-1}`),
		"nullfields": str(`{"Event":null,"Events":null,"Key":null,"KeyDigest":null,"Version":null}`), "number": str("42"),
	}
	for _, m := range methods {
		for _, p := range apiPaths {
			for shape, b := range generic {
				if m != "POST" && shape != "absent" && shape != "emptyobj" {
					continue
				}
				valid := 0
				if m == "POST" && p == "/events" && (shape == "emptyobj" || shape == "null" || shape == "nullfields") {
					// JSON that decodes to an Event without payload IS an add of the empty event
					valid = 1
				}
				reqs = append(reqs, apiReq{"api", m, p, b, shape, valid})
			}
		}
		for _, p := range []string{"/backup", "/backups", "/backup?backupID=", "/backup?backupID=abc", "/backup?backupID=99999", "/backup?backupID=-1", "/backup?backupID=4294967296", "/backup?x=1"} {
			reqs = append(reqs, apiReq{"mgmt", m, p, nil, "absent", 0})
		}
	}
	// events
	big := make([]string, 300)
	for i := range big {
		d := make([]byte, 32)
		rng.Read(d)
		big[i] = `"` + b64(symhash.EventFor(d)) + `"`
	}
	ev := func() string {
		d := make([]byte, 32)
		rng.Read(d)
		return b64(symhash.EventFor(d))
	}
	reqs = append(reqs,
		apiReq{"api", "POST", "/events", str(`{"Event":"` + ev() + `"}`), "valid", 1},
		apiReq{"api", "POST", "/events", str(`{"Event":""}`), "empty_event", 1},
		apiReq{"api", "POST", "/events", str(`{"Event":"` + ev() + `","Extra":1}`), "extra_field", 1},
		apiReq{"api", "POST", "/events", str(`{"Event":"!!notbase64"}`), "bad_base64", 0},
		apiReq{"api", "POST", "/events/bulk", str(`{"Events":["` + ev() + `","` + ev() + `"]}`), "valid", 2},
		apiReq{"api", "POST", "/events/bulk", str(`{"Events":[]}`), "empty_bulk", 0},
		apiReq{"api", "POST", "/events/bulk", str(`{"Events":null}`), "null_bulk", 0},
		apiReq{"api", "POST", "/events/bulk", str(`{}`), "missing_bulk", 0},
		apiReq{"api", "POST", "/events/bulk", str(`{"Events":["",""]}`), "bulk_of_empty_events", 2},
		apiReq{"api", "POST", "/events/bulk", str(`{"Events":[` + strings.Join(big, ",") + `]}`), "huge_bulk", 300},
		apiReq{"api", "POST", "/events/bulk", str(`{"Events":["` + ev() + `"]}`), "bulk_of_one", 1},
	)
	// the same event repeated inside one batch (adjacent or not, twice to many times) and an
	// event that an earlier request already added
	e1, e2, e3 := ev(), ev(), ev()
	kN := 2 + rng.Intn(7)
	rep := func(e string, k int) string {
		x := make([]string, k)
		for i := range x {
			x[i] = `"` + e + `"`
		}
		return strings.Join(x, ",")
	}
	reqs = append(reqs,
		apiReq{"api", "POST", "/events/bulk", str(`{"Events":[` + rep(e1, 2) + `]}`), "bulk_dup2", 2},
		apiReq{"api", "POST", "/events/bulk", str(`{"Events":[` + rep(e2, 3) + `]}`), "bulk_dup3", 3},
		apiReq{"api", "POST", "/events/bulk", str(`{"Events":[` + rep(e3, kN) + `]}`), "bulk_dupN", kN},
		apiReq{"api", "POST", "/events/bulk", str(`{"Events":["` + e1 + `","` + ev() + `","` + e1 + `","` + e2 + `","` + e1 + `","` + e2 + `"]}`), "bulk_dup_interleaved", 6},
		apiReq{"api", "POST", "/events/bulk", str(`{"Events":["",""` + `,""]}`), "bulk_of_3_empty_events", 3},
		apiReq{"api", "POST", "/events", str(`{"Event":"` + b64(symhash.EventFor(known)) + `"}`), "readd_known", 1},
		apiReq{"api", "POST", "/events/bulk", str(`{"Events":["` + b64(symhash.EventFor(known)) + `","` + b64(symhash.EventFor(known)) + `","` + b64(symhash.EventFor(known)) + `"]}`), "bulk_readd_known3", 3},
	)
	// proofs
	vers := []string{"0", fmt.Sprint(cur), fmt.Sprint(cur + 1), "9223372036854775808", "18446744073709551615", "-1", "1.5", "18446744073709551616"}
	for _, v := range vers {
		reqs = append(reqs,
			apiReq{"api", "POST", "/proofs/membership", str(`{"Key":"` + b64(symhash.EventFor(known)) + `","Version":` + v + `}`), "version_" + v, 0},
			apiReq{"api", "POST", "/proofs/digest-membership", str(`{"KeyDigest":"` + b64(known) + `","Version":` + v + `}`), "version_" + v, 0},
			apiReq{"api", "POST", "/proofs/incremental", str(`{"Start":0,"End":` + v + `}`), "end_" + v, 0},
			apiReq{"api", "POST", "/proofs/incremental", str(`{"Start":` + v + `,"End":` + v + `}`), "startend_" + v, 0},
		)
	}
	for _, ln := range []int{0, 1, 3, 4, 31, 32, 33, 64} {
		d := make([]byte, ln)
		rng.Read(d)
		reqs = append(reqs,
			apiReq{"api", "POST", "/proofs/digest-membership", str(`{"KeyDigest":"` + b64(d) + `"}`), fmt.Sprintf("digestlen_%d", ln), 0},
			apiReq{"api", "POST", "/proofs/digest-membership", str(`{"KeyDigest":"` + b64(d) + `","Version":0}`), fmt.Sprintf("digestlen_%d_v0", ln), 0},
		)
	}
	reqs = append(reqs,
		apiReq{"api", "POST", "/proofs/incremental", str(`{"Start":2,"End":1}`), "start>end", 0},
		apiReq{"api", "POST", "/proofs/incremental", str(`{"Start":0,"End":0}`), "zero", 0},
		apiReq{"api", "POST", "/proofs/membership", str(`{"Key":""}`), "empty_key", 0},
		apiReq{"api", "POST", "/proofs/membership", str(`{}`), "no_key", 0},
		apiReq{"mgmt", "POST", "/backup", nil, "create_backup", 0},
		apiReq{"mgmt", "GET", "/backups", nil, "list", 0},
		apiReq{"mgmt", "DELETE", "/backup?backupID=1", nil, "delete_existing", 0},
		apiReq{"mgmt", "DELETE", "/backup?backupID=1", nil, "delete_again", 0},
	)
	rng.Shuffle(len(reqs), func(i, j int) { reqs[i], reqs[j] = reqs[j], reqs[i] })
	return reqs
}

type apiRun struct {
	tw        *trace.Writer
	c         *child
	api, mgmt string
	hc        *http.Client
	dir       string
}

func (a *apiRun) start() bool {
	a.tw.Emit(trace.Ev{"a": "boot"})
	c, err := spawnNode(a.dir)
	if err != nil {
		return false
	}
	a.c = c
	resp, alive := c.next(func(map[string]interface{}) {})
	if !alive || resp["err"] == true {
		a.tw.Emit(trace.Ev{"a": "start", "err": true})
		return false
	}
	a.tw.Emit(trace.Ev{"a": "start", "err": false, "version": resp["version"], "idx": resp["idx"]})
	c.send(nodeCmd{Op: "serve"})
	resp, alive = c.next(func(map[string]interface{}) {})
	if !alive {
		return false
	}
	a.api, a.mgmt = fmt.Sprint(resp["api"]), fmt.Sprint(resp["mgmt"])
	return true
}

func (a *apiRun) version() (uint64, bool) {
	a.c.send(nodeCmd{Op: "state"})
	done := make(chan map[string]interface{}, 1)
	go func() {
		r, ok := a.c.next(func(map[string]interface{}) {})
		if ok {
			done <- r
		} else {
			done <- nil
		}
	}()
	select {
	case r := <-done:
		if r == nil {
			return 0, false
		}
		return uint64(r["version"].(float64)), true
	case <-time.After(15 * time.Second):
		return 0, false
	}
}

// fire sends one request; outcome class: "2xx".."5xx", "none" (no HTTP response)
func (a *apiRun) fire(r apiReq) (string, int, string) {
	base := a.api
	if r.Mux == "mgmt" {
		base = a.mgmt
	}
	var body *bytes.Reader
	var req *http.Request
	var err error
	if r.Body != nil {
		body = bytes.NewReader([]byte(*r.Body))
		req, err = http.NewRequest(r.Method, "http://"+base+r.Path, body)
	} else {
		req, err = http.NewRequest(r.Method, "http://"+base+r.Path, nil)
	}
	if err != nil {
		return "unsendable", 0, err.Error()
	}
	resp, err := a.hc.Do(req)
	if err != nil {
		return "none", 0, truncate(err.Error(), 120)
	}
	defer resp.Body.Close()
	b, _ := ioutil.ReadAll(resp.Body)
	return fmt.Sprintf("%dxx", resp.StatusCode/100), resp.StatusCode, truncate(string(b), 80)
}

func apiDriver(args []string) error {
	fs := flag.NewFlagSet("api", flag.ExitOnError)
	out, seed, tier := commonFlags(fs)
	files := fs.Int("files", 1, "")
	first := fs.Int("fi", 0, "")
	fs.Parse(args)
	_ = tier
	tmp, err := ioutil.TempDir("", "drvapi")
	if err != nil {
		return err
	}
	defer os.RemoveAll(tmp)
	stats := map[string]int{}
	for fi := *first; fi < *first+*files; fi++ {
		rng := rand.New(rand.NewSource(*seed*86028121 + int64(fi)))
		tw, err := trace.Create(filepath.Join(*out, fmt.Sprintf("api_%02d.ndjson", fi)))
		if err != nil {
			return err
		}
		dir, _ := ioutil.TempDir(tmp, "api")
		a := &apiRun{tw: tw, dir: dir, hc: &http.Client{Timeout: 20 * time.Second, CheckRedirect: func(*http.Request, []*http.Request) error { return http.ErrUseLastResponse }}}
		tw.Emit(trace.Ev{"a": "reset"})
		if !a.start() {
			tw.Close()
			return fmt.Errorf("node did not start")
		}
		// a few events first
		known := make([]byte, 32)
		rng.Read(known)
		seedReqs := []apiReq{{"api", "POST", "/events", strp(`{"Event":"` + b64(symhash.EventFor(known)) + `"}`), "valid", 1}}
		for i := 0; i < 3; i++ {
			d := make([]byte, 32)
			rng.Read(d)
			seedReqs = append(seedReqs, apiReq{"api", "POST", "/events", strp(`{"Event":"` + b64(symhash.EventFor(d)) + `"}`), "valid", 1})
		}
		cur, _ := a.version()
		reqs := append(seedReqs, apiMatrix(rng, cur+4-1, known)...)
		// every file runs a slice of the matrix (plus the seeds)
		alive := true
		// one recorded request: version before, the request, version after, restart if the node is gone
		step := func(r apiReq) bool {
			before, ok := a.version()
			if !ok {
				alive = false
			}
			var class, detail string
			var code int
			if alive {
				class, code, detail = a.fire(r)
			} else {
				class = "none"
			}
			after, ok2 := a.version()
			ev := trace.Ev{"a": "req", "mux": r.Mux, "method": r.Method, "path": r.Path, "shape": r.Shape, "valid": r.Valid,
				"class": class, "code": code, "detail": detail, "before": before, "after": after, "alive": ok2}
			tw.Emit(ev)
			stats["requests"]++
			if !ok2 {
				// the node process is gone (or wedged): restart it and see whether the log can be replayed
				a.c.kill()
				tw.Emit(trace.Ev{"a": "died", "after_req": r.Method + " " + r.Path + " " + r.Shape})
				if !a.start() {
					tw.Emit(trace.Ev{"a": "replay_failed"})
					alive = false
					return false
				}
				alive = true
			}
			return true
		}
		for i, r := range reqs {
			if i >= len(seedReqs) && (i%*files != 0 && *files > 1) {
				continue
			}
			if !step(r) {
				break
			}
		}
		// insertions while other clients keep asking for the membership of a very large key (the
		// server hashes the key inside the query): every insertion must still be served
		if alive {
			big := make([]byte, 6<<20)
			rng.Read(big)
			bigBody := []byte(`{"Key":"` + b64(big) + `"}`)
			stop := make(chan struct{})
			var wg sync.WaitGroup
			var served int32
			for g := 0; g < 3; g++ {
				wg.Add(1)
				go func() {
					defer wg.Done()
					hc := &http.Client{Timeout: 20 * time.Second}
					for {
						select {
						case <-stop:
							return
						default:
						}
						req, _ := http.NewRequest("POST", "http://"+a.api+"/proofs/membership", bytes.NewReader(bigBody))
						if resp, err := hc.Do(req); err == nil {
							ioutil.ReadAll(resp.Body)
							resp.Body.Close()
							atomic.AddInt32(&served, 1)
						} else {
							time.Sleep(50 * time.Millisecond)
						}
					}
				}()
			}
			// insertions go on until the readers have been served a dozen times (so that insertions
			// arrive at every phase of such a query), bounded by count and time
			t0 := time.Now()
			for k := 0; k < 60 && alive && (k < 8 || (atomic.LoadInt32(&served) < 12 && time.Since(t0) < 20*time.Second)); k++ {
				d := make([]byte, 32)
				rng.Read(d)
				if !step(apiReq{"api", "POST", "/events", strp(`{"Event":"` + b64(symhash.EventFor(d)) + `"}`), "add_during_big_key_reads", 1}) {
					break
				}
			}
			close(stop)
			wg.Wait()
		}
		// liveness probe + restart (log replay)
		for phase := 0; phase < 2 && alive; phase++ {
			d := make([]byte, 32)
			rng.Read(d)
			before, _ := a.version()
			class, code, _ := a.fire(apiReq{"api", "POST", "/events", strp(`{"Event":"` + b64(symhash.EventFor(d)) + `"}`), "probe", 1})
			after, ok := a.version()
			c2, _, body := a.probeMembership(d)
			tw.Emit(trace.Ev{"a": "probe", "phase": phase, "class": class, "code": code, "before": before, "after": after, "alive": ok, "member_class": c2, "member_exists": body})
			if phase == 0 {
				a.c.send(nodeCmd{Op: "stop"})
				a.c.next(func(map[string]interface{}) {})
				a.c.cmd.Wait()
				a.c.dead = true
				tw.Emit(trace.Ev{"a": "restart"})
				if !a.start() {
					tw.Emit(trace.Ev{"a": "replay_failed"})
					break
				}
			}
		}
		if a.c != nil {
			a.c.kill()
		}
		os.RemoveAll(dir)
		tw.Close()
		stats["lines"] += tw.Lines
	}
	b, _ := json.Marshal(stats)
	fmt.Println(string(b))
	return nil
}

func strp(s string) *string { return &s }

func (a *apiRun) probeMembership(d []byte) (string, int, bool) {
	body := `{"KeyDigest":"` + b64(d) + `"}`
	req, _ := http.NewRequest("POST", "http://"+a.api+"/proofs/digest-membership", bytes.NewReader([]byte(body)))
	resp, err := a.hc.Do(req)
	if err != nil {
		return "none", 0, false
	}
	defer resp.Body.Close()
	var mr struct{ Exists bool }
	json.NewDecoder(resp.Body).Decode(&mr)
	return fmt.Sprintf("%dxx", resp.StatusCode/100), resp.StatusCode, mr.Exists
}
