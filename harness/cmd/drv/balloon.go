package main

import (
	"bytes"
	"encoding/hex"
	"encoding/json"
	"flag"
	"fmt"
	"io/ioutil"
	"math/rand"
	"os"
	"path/filepath"
	"reflect"
	"runtime/debug"
	"sort"

	"github.com/bbva/qed/balloon"
	"github.com/bbva/qed/crypto/hashing"
	"github.com/bbva/qed/protocol"
	"github.com/bbva/qed/storage"
	"github.com/bbva/qed/storage/bplus"
	"github.com/bbva/qed/storage/rocks"

	"verif/harness/symhash"
	"verif/harness/trace"
)

func init() { drivers["balloon"] = balloonDriver }

// ---------------------------------------------------------------- universe

// prefix lengths on both sides of every batch (h%4) and cache (h=232) boundary
var prefixLens = []int{0, 1, 3, 4, 7, 8, 23, 24, 25, 231, 232, 233, 250, 255}

func flipBit(k []byte, bit int) []byte {
	o := append([]byte(nil), k...)
	o[bit/8] ^= 1 << uint(7-bit%8)
	return o
}

func bitsOf(k []byte) []int {
	bs := make([]int, 0, len(k)*8)
	for _, b := range k {
		for i := 7; i >= 0; i-- {
			bs = append(bs, int(b>>uint(i))&1)
		}
	}
	return bs
}

// makeUniverse: K0, K0 with bit p flipped (shares exactly p leading bits with K0), a few
// second-level flips (pairs sharing long prefixes that do not involve K0) and random keys.
func makeUniverse(rng *rand.Rand, size int) [][]byte {
	structured := 14
	k0 := make([]byte, 32)
	rng.Read(k0)
	u := [][]byte{k0}
	ps := append([]int(nil), prefixLens...)
	rng.Shuffle(len(ps), func(i, j int) { ps[i], ps[j] = ps[j], ps[i] })
	for _, p := range ps {
		if len(u) >= structured {
			break
		}
		k := flipBit(k0, p)
		u = append(u, k)
		if rng.Intn(3) == 0 && p < 250 {
			q := prefixLens[rng.Intn(len(prefixLens))]
			if q > p {
				u = append(u, flipBit(k, q))
			}
		}
	}
	for len(u) < size {
		k := make([]byte, 32)
		rng.Read(k)
		u = append(u, k)
	}
	return u
}

// ---------------------------------------------------------------- one balloon under test

type bsnap struct {
	s   *balloon.Snapshot
	sha *balloon.Snapshot // the same insertion performed with real SHA-256
}

type brun struct {
	tw      *trace.Writer
	enc     *symhash.Encoder
	kind    string // "rocks" | "bplus"
	dir     string
	store   storage.Store
	b       *balloon.Balloon
	shaSt   storage.Store
	shaB    *balloon.Balloon
	snaps   []bsnap
	log     [][]byte
	queries int
}

func openStore(kind, dir string) (storage.Store, error) {
	if kind == "bplus" {
		return bplus.NewBPlusTreeStore(), nil
	}
	return rocks.NewRocksDBStore(dir, 0)
}

func newBrun(tw *trace.Writer, enc *symhash.Encoder, kind, dir string) (*brun, error) {
	r := &brun{tw: tw, enc: enc, kind: kind, dir: dir}
	var err error
	if r.store, err = openStore(kind, filepath.Join(dir, "sym")); err != nil {
		return nil, err
	}
	if r.b, err = balloon.NewBalloon(r.store, symhash.New); err != nil {
		return nil, err
	}
	r.shaSt = bplus.NewBPlusTreeStore()
	if r.shaB, err = balloon.NewBalloon(r.shaSt, hashing.NewSha256Hasher); err != nil {
		return nil, err
	}
	return r, nil
}

func (r *brun) close() {
	r.b.Close()
	r.store.Close()
	r.shaB.Close()
	r.shaSt.Close()
}

func hx(b []byte) string { return hex.EncodeToString(b) }

func shaMatches(sym []byte, real []byte) bool {
	return bytes.Equal(symhash.Global.EvalBytes(sym), real)
}

// add inserts a bulk (len 1 + single => Add) into the real balloon and persists the mutations.
func (r *brun) add(bulk [][]byte, single bool) error {
	var snaps, shaSnaps []*balloon.Snapshot
	var muts, shaMuts []*storage.Mutation
	var err error
	if single {
		var s *balloon.Snapshot
		s, muts, err = r.b.Add(bulk[0])
		if err != nil {
			return err
		}
		snaps = []*balloon.Snapshot{s}
		s, shaMuts, err = r.shaB.Add(bulk[0])
		if err != nil {
			return err
		}
		shaSnaps = []*balloon.Snapshot{s}
	} else {
		ds := make([]hashing.Digest, len(bulk))
		for i := range bulk {
			ds[i] = bulk[i]
		}
		snaps, muts, err = r.b.AddBulk(ds)
		if err != nil {
			return err
		}
		shaSnaps, shaMuts, err = r.shaB.AddBulk(ds)
		if err != nil {
			return err
		}
	}
	if err = r.store.Mutate(muts, nil); err != nil {
		return err
	}
	if err = r.shaSt.Mutate(shaMuts, nil); err != nil {
		return err
	}
	ev := trace.Ev{"a": "add", "single": single}
	bl := make([]interface{}, len(bulk))
	for i := range bulk {
		bl[i] = hx(bulk[i])
	}
	ev["bulk"] = bl
	sl := make([]interface{}, len(snaps))
	for i, s := range snaps {
		shaOK := i < len(shaSnaps) &&
			shaMatches(s.HistoryDigest, shaSnaps[i].HistoryDigest) &&
			shaMatches(s.HyperDigest, shaSnaps[i].HyperDigest) &&
			bytes.Equal(s.EventDigest, shaSnaps[i].EventDigest) && s.Version == shaSnaps[i].Version
		sl[i] = trace.Ev{
			"v":     s.Version,
			"e":     hx(s.EventDigest),
			"hist":  r.enc.Enc(s.HistoryDigest),
			"hyper": r.enc.Enc(s.HyperDigest),
			"sha":   shaOK,
		}
		r.snaps = append(r.snaps, bsnap{s, shaSnaps[i]})
	}
	ev["snaps"] = sl
	r.log = append(r.log, bulk...)
	r.tw.Emit(ev)
	return nil
}

func (r *brun) pathTerms(p map[string]hashing.Digest) trace.Ev {
	o := trace.Ev{}
	for k, v := range p {
		o[k] = r.enc.Enc(v)
	}
	return o
}

func guard(f func()) (panicked bool, msg string) {
	defer func() {
		if x := recover(); x != nil {
			panicked = true
			msg = fmt.Sprint(x)
		}
	}()
	f()
	return
}

// member queries membership of digest d at version q (useLatest: QueryDigestMembership),
// sends the answer through the real JSON wire format and verifies it with the real verifier.
func (r *brun) member(d []byte, q uint64, useLatest bool) {
	r.queries++
	ev := trace.Ev{"a": "member", "d": hx(d), "q": q, "latest": useLatest}
	var proof *balloon.MembershipProof
	var err error
	pan, msg := guard(func() {
		if useLatest {
			proof, err = r.b.QueryDigestMembership(d)
		} else {
			proof, err = r.b.QueryDigestMembershipConsistency(d, q)
		}
	})
	if pan {
		ev["panic"] = msg
		ev["err"] = true
		r.tw.Emit(ev)
		return
	}
	if err != nil {
		ev["err"] = true
		ev["errmsg"] = err.Error()
		r.tw.Emit(ev)
		return
	}
	ev["err"] = false
	ev["exists"] = proof.Exists
	ev["actual"] = proof.ActualVersion
	ev["query"] = proof.QueryVersion
	ev["current"] = proof.CurrentVersion
	ev["key"] = hx(proof.KeyDigest)

	// wire round trip
	mr := protocol.ToMembershipResult(nil, proof)
	raw, _ := json.Marshal(mr)
	var back protocol.MembershipResult
	werr := json.Unmarshal(raw, &back)
	// every field of the in-process proof must arrive unchanged on the other side of the wire
	var histSer map[string]hashing.Digest
	if proof.HistoryProof != nil {
		histSer = proof.HistoryProof.AuditPath.Serialize()
	}
	ev["wire_fields"] = werr == nil && reflect.DeepEqual(map[string]hashing.Digest(proof.HyperProof.AuditPath), back.Hyper) &&
		(len(histSer) == 0 && len(back.History) == 0 || reflect.DeepEqual(histSer, back.History)) &&
		proof.Exists == back.Exists && proof.CurrentVersion == back.CurrentVersion &&
		proof.QueryVersion == back.QueryVersion && proof.ActualVersion == back.ActualVersion &&
		bytes.Equal(proof.KeyDigest, back.KeyDigest)
	ev["hyper"] = r.pathTerms(back.Hyper)
	ev["history"] = r.pathTerms(back.History)

	// verify against the snapshots the balloon issued: history digest of the queried
	// version, hyper digest of the current version
	cur := proof.CurrentVersion
	qv := proof.QueryVersion
	if qv > cur {
		qv = cur
	}
	if int(cur) < len(r.snaps) && int(qv) < len(r.snaps) {
		snap := &balloon.Snapshot{
			EventDigest:   d,
			HistoryDigest: r.snaps[qv].s.HistoryDigest,
			HyperDigest:   r.snaps[cur].s.HyperDigest,
			Version:       qv,
		}
		var vLocal, vWire bool
		p1, m1 := guard(func() { vLocal = proof.DigestVerify(d, snap) })
		p2, m2 := guard(func() { vWire = protocol.ToBalloonProof(&back, symhash.New).DigestVerify(d, snap) })
		ev["v_local"] = vLocal
		ev["v_wire"] = vWire
		if p1 {
			ev["v_local_panic"] = m1
		}
		if p2 {
			ev["v_wire_panic"] = m2
		}
		// verdict against every OTHER version's history digest must be false for an
		// existing event (the proof binds the queried version's tree)
		if proof.Exists {
			wrong := []interface{}{}
			for _, ov := range otherVersions(len(r.snaps), int(qv)) {
				s2 := &balloon.Snapshot{EventDigest: d, HistoryDigest: r.snaps[ov].s.HistoryDigest, HyperDigest: snap.HyperDigest, Version: uint64(ov)}
				var acc bool
				guard(func() { acc = protocol.ToBalloonProof(&back, symhash.New).DigestVerify(d, s2) })
				wrong = append(wrong, trace.Ev{"v": ov, "acc": acc})
			}
			ev["wrong_hist"] = wrong
		}
	}
	r.tw.Emit(ev)
}

func otherVersions(n, except int) []int {
	out := []int{}
	for _, v := range []int{0, except - 1, except + 1, n - 1, n / 2} {
		if v >= 0 && v < n && v != except {
			dup := false
			for _, x := range out {
				dup = dup || x == v
			}
			if !dup {
				out = append(out, v)
			}
		}
	}
	return out
}

// incr queries a consistency proof, wire round trip, real verification with the right
// digests, plus alterations whose expected verdict the specification supplies.
func (r *brun) incr(s, e uint64, fork *brun, forkAt int, rng *rand.Rand) {
	r.queries++
	ev := trace.Ev{"a": "incr", "s": s, "e": e}
	var proof *balloon.IncrementalProof
	var err error
	pan, msg := guard(func() { proof, err = r.b.QueryConsistency(s, e) })
	if pan {
		ev["panic"] = msg
		ev["err"] = true
		r.tw.Emit(ev)
		return
	}
	if err != nil {
		ev["err"] = true
		ev["errmsg"] = err.Error()
		r.tw.Emit(ev)
		return
	}
	ev["err"] = false
	resp := protocol.ToIncrementalResponse(proof)
	raw, _ := json.Marshal(resp)
	var back protocol.IncrementalResponse
	werr := json.Unmarshal(raw, &back)
	ev["wire_fields"] = werr == nil && back.Start == proof.Start && back.End == proof.End && reflect.DeepEqual(back.AuditPath, proof.AuditPath.Serialize())
	ev["rs"] = back.Start
	ev["re"] = back.End
	ev["path"] = r.pathTerms(back.AuditPath)

	// the verifier is handed whole snapshots, as a client holds them: version sv / ev, the given
	// history digest (the version is that of the snapshot the digest was taken from)
	snapOf := func(v uint64, hd hashing.Digest) *balloon.Snapshot {
		sn := &balloon.Snapshot{Version: v, HistoryDigest: hd}
		if int(v) < len(r.snaps) {
			sn.EventDigest, sn.HyperDigest = r.snaps[v].s.EventDigest, r.snaps[v].s.HyperDigest
		}
		return sn
	}
	verifyV := func(ir *protocol.IncrementalResponse, sv uint64, sd hashing.Digest, evv uint64, ed hashing.Digest) (bool, bool) {
		var ok bool
		p, _ := guard(func() {
			ok = protocol.ToIncrementalProof(ir, symhash.New).Verify(snapOf(sv, sd), snapOf(evv, ed))
		})
		return ok, p
	}
	sd, ed := r.snaps[s].s.HistoryDigest, r.snaps[e].s.HistoryDigest
	var vLocal bool
	guard(func() { vLocal = proof.Verify(snapOf(s, sd), snapOf(e, ed)) })
	vWire, _ := verifyV(&back, s, sd, e, ed)
	ev["v_local"] = vLocal
	ev["v_wire"] = vWire

	// alterations: each is described so that the specification can compute the expected verdict
	alts := []interface{}{}
	addAltV := func(desc trace.Ev, ir *protocol.IncrementalResponse, av uint64, a hashing.Digest, bv uint64, b hashing.Digest) {
		acc, p := verifyV(ir, av, a, bv, b)
		desc["acc"] = acc
		if p {
			desc["panic"] = true
		}
		alts = append(alts, desc)
	}
	n := len(r.snaps)
	for _, ov := range otherVersions(n, int(s)) {
		addAltV(trace.Ev{"k": "start_other", "v": ov}, &back, uint64(ov), r.snaps[ov].s.HistoryDigest, e, ed)
	}
	for _, ov := range otherVersions(n, int(e)) {
		addAltV(trace.Ev{"k": "end_other", "v": ov}, &back, s, sd, uint64(ov), r.snaps[ov].s.HistoryDigest)
		if ov != int(s) {
			// both digests replaced by the same other version's digest
			addAltV(trace.Ev{"k": "both_other", "v": ov}, &back, uint64(ov), r.snaps[ov].s.HistoryDigest, uint64(ov), r.snaps[ov].s.HistoryDigest)
		}
	}
	if fork != nil && int(e) < len(fork.snaps) && forkAt <= int(s) {
		// both digests taken from the forked log
		addAltV(trace.Ev{"k": "both_fork", "at": forkAt}, &back, s, fork.snaps[s].s.HistoryDigest, e, fork.snaps[e].s.HistoryDigest)
	}
	if fork != nil && int(e) < len(fork.snaps) {
		// the fork agrees with this log on versions < forkAt: only later digests differ
		addAltV(trace.Ev{"k": "end_fork", "at": forkAt}, &back, s, sd, e, fork.snaps[e].s.HistoryDigest)
		addAltV(trace.Ev{"k": "start_fork", "at": forkAt}, &back, s, fork.snaps[s].s.HistoryDigest, e, ed)
	}
	// single-entry alterations: replace by another entry of the same path / drop
	keys := make([]string, 0, len(back.AuditPath))
	for k := range back.AuditPath {
		keys = append(keys, k)
	}
	sort.Strings(keys)
	if len(keys) > 0 {
		for t := 0; t < 2; t++ {
			k := keys[rng.Intn(len(keys))]
			alt := protocol.IncrementalResponse{Start: back.Start, End: back.End, AuditPath: map[string]hashing.Digest{}}
			for kk, vv := range back.AuditPath {
				alt.AuditPath[kk] = vv
			}
			if t == 0 {
				delete(alt.AuditPath, k)
				addAltV(trace.Ev{"k": "drop", "key": k}, &alt, s, sd, e, ed)
			} else {
				src := r.snaps[rng.Intn(n)].s.HistoryDigest
				if !bytes.Equal(src, alt.AuditPath[k]) {
					alt.AuditPath[k] = src
					addAltV(trace.Ev{"k": "replace", "key": k}, &alt, s, sd, e, ed)
				}
			}
		}
	}
	if s > 0 {
		alt := back
		alt.Start = s - 1
		addAltV(trace.Ev{"k": "start_field", "v": s - 1}, &alt, s, sd, e, ed)
	}
	if e > s {
		alt := back
		alt.End = e - 1
		addAltV(trace.Ev{"k": "end_field", "v": e - 1}, &alt, s, sd, e, ed)
	}
	ev["alts"] = alts
	r.tw.Emit(ev)
}

func (r *brun) reopen() error {
	if r.kind != "rocks" {
		return nil
	}
	r.b.Close()
	if err := r.store.Close(); err != nil {
		return err
	}
	var err error
	if r.store, err = openStore(r.kind, filepath.Join(r.dir, "sym")); err != nil {
		return err
	}
	if r.b, err = balloon.NewBalloon(r.store, symhash.New); err != nil {
		return err
	}
	r.tw.Emit(trace.Ev{"a": "reopen", "version": r.b.Version()})
	return nil
}

// ---------------------------------------------------------------- scenarios

type bscenario struct {
	kind     string
	events   [][]byte // the sequence of digests
	splits   []int    // bulk lengths (sum = len(events)); 0-length never
	singles  []bool   // per bulk: use Add for a bulk of one
	reopenAt map[int]bool
	full     bool // query every (e, q) after every insertion
}

func runBalloonScenario(tw *trace.Writer, enc *symhash.Encoder, sc *bscenario, rng *rand.Rand, tmp string, withFork bool) (int, error) {
	dir, err := ioutil.TempDir(tmp, "bal")
	if err != nil {
		return 0, err
	}
	defer os.RemoveAll(dir)
	tw.Emit(trace.Ev{"a": "reset", "store": sc.kind})
	r, err := newBrun(tw, enc, sc.kind, dir)
	if err != nil {
		return 0, err
	}
	defer r.close()
	pos := 0
	for bi, ln := range sc.splits {
		bulk := sc.events[pos : pos+ln]
		pos += ln
		if err := r.add(bulk, ln == 1 && sc.singles[bi]); err != nil {
			return r.queries, err
		}
		if sc.reopenAt[bi] {
			if err := r.reopen(); err != nil {
				return r.queries, err
			}
		}
		last := bi == len(sc.splits)-1
		if sc.full || last || rng.Intn(8) == 0 {
			r.queryAll(rng, sc.full || len(r.log) <= 6)
		}
	}
	if withFork && len(r.log) >= 2 {
		// a second real balloon sharing a prefix and then diverging
		at := rng.Intn(len(r.log))
		fdir, _ := ioutil.TempDir(tmp, "fork")
		defer os.RemoveAll(fdir)
		ftw, _ := trace.Create(filepath.Join(fdir, "discard"))
		f, err := newBrun(ftw, enc, "bplus", fdir)
		if err == nil {
			for i, d := range r.log {
				dd := d
				if i >= at {
					dd = flipBit(d, 100+i%50)
				}
				f.add([][]byte{dd}, true)
			}
			tw.Emit(trace.Ev{"a": "forkinfo", "at": at})
			n := uint64(len(r.log))
			for t := 0; t < 12; t++ {
				e := uint64(rng.Int63n(int64(n)))
				s := uint64(rng.Int63n(int64(e + 1)))
				r.incrFork(s, e, f, at, rng)
			}
			f.close()
			ftw.Close()
		}
	}
	return r.queries, nil
}

func (r *brun) incrFork(s, e uint64, f *brun, at int, rng *rand.Rand) {
	r.incr(s, e, f, at, rng)
}

func (r *brun) queryAll(rng *rand.Rand, exhaustive bool) {
	n := uint64(len(r.log))
	if n == 0 {
		return
	}
	// membership: every distinct event, query versions from its reported version to current
	seen := map[string]bool{}
	for i := uint64(0); i < n; i++ {
		d := r.log[i]
		if seen[string(d)] {
			continue
		}
		seen[string(d)] = true
		if exhaustive {
			r.member(d, n-1, true)
			for q := uint64(0); q < n; q++ {
				r.member(d, q, false)
			}
		} else if i < 14 || rng.Intn(4) == 0 {
			if rng.Intn(3) == 0 {
				r.member(d, n-1, true)
			}
			for _, q := range sampleVersions(rng, i, n) {
				r.member(d, q, false)
			}
		}
	}
	// consistency
	if exhaustive {
		for e := uint64(0); e < n; e++ {
			for s := uint64(0); s <= e; s++ {
				r.incr(s, e, nil, 0, rng)
			}
		}
	} else {
		for t := 0; t < 16; t++ {
			e := biased(rng, n)
			s := biased(rng, e+1)
			r.incr(s, e, nil, 0, rng)
		}
	}
	// out of range / invalid requests must be clean errors
	r.incr(n, n, nil, 0, rng)
	r.incr(1, 0, nil, 0, rng)
	r.incr(0, n, nil, 0, rng)
}

// versions around powers of two and the ends of [from, n)
func sampleVersions(rng *rand.Rand, from, n uint64) []uint64 {
	set := map[uint64]bool{from: true, n - 1: true}
	for p := uint64(1); p < 2*n; p *= 2 {
		for _, c := range []uint64{p - 1, p, p + 1} {
			if c >= from && c < n {
				set[c] = true
			}
		}
	}
	for t := 0; t < 3; t++ {
		set[from+uint64(rng.Int63n(int64(n-from)))] = true
	}
	out := make([]uint64, 0, len(set))
	for v := range set {
		out = append(out, v)
	}
	sort.Slice(out, func(i, j int) bool { return out[i] < out[j] })
	if len(out) > 5 {
		rng.Shuffle(len(out), func(i, j int) { out[i], out[j] = out[j], out[i] })
		out = out[:5]
	}
	return out
}

func biased(rng *rand.Rand, n uint64) uint64 {
	if n <= 1 {
		return 0
	}
	if rng.Intn(2) == 0 {
		p := uint64(1) << uint(rng.Intn(64))
		for p >= n {
			p >>= 1
		}
		c := p + uint64(rng.Intn(3)) - 1
		if c < n {
			return c
		}
	}
	return uint64(rng.Int63n(int64(n)))
}

func randomSplits(rng *rand.Rand, n int, maxBulk int) ([]int, []bool) {
	var splits []int
	var singles []bool
	for n > 0 {
		ln := 1
		if rng.Intn(2) == 0 {
			ln = 1 + rng.Intn(maxBulk)
		}
		if rng.Intn(12) == 0 {
			ln = 8 + rng.Intn(33) // a large bulk: more leaves than one 4-level batch holds
		}
		if ln > n {
			ln = n
		}
		splits = append(splits, ln)
		singles = append(singles, rng.Intn(3) != 0)
		n -= ln
	}
	return splits, singles
}

func balloonDriver(args []string) error {
	fs := flag.NewFlagSet("balloon", flag.ExitOnError)
	out, seed, tier := commonFlags(fs)
	files := fs.Int("files", 1, "number of trace files")
	first := fs.Int("fi", 0, "index of the first trace file (one process per file keeps the address space small)")
	fs.Parse(args)
	// every Balloon allocates a 1.15 GB batch cache; letting the GC recycle those spans makes
	// the runtime re-zero them page by page (seconds).  Fresh mappings are free, so: no GC.
	debug.SetGCPercent(-1)
	thorough := *tier == "thorough"
	tmp, err := ioutil.TempDir("", "drvbal")
	if err != nil {
		return err
	}
	defer os.RemoveAll(tmp)
	stats := map[string]int{}
	for fi := *first; fi < *first+*files; fi++ {
		rng := rand.New(rand.NewSource(*seed*1000 + int64(fi)))
		tw, err := trace.Create(filepath.Join(*out, fmt.Sprintf("balloon_%02d.ndjson", fi)))
		if err != nil {
			return err
		}
		usize := 14 + 64
		if thorough {
			usize = 14 + 280
		}
		u := makeUniverse(rng, usize)
		keys := trace.Ev{}
		for _, k := range u {
			keys[hx(k)] = bitsOf(k)
		}
		tw.Emit(trace.Ev{"a": "universe", "keys": keys})
		dw, err := trace.Create(filepath.Join(*out, fmt.Sprintf("balloon_%02d.defs.ndjson", fi)))
		if err != nil {
			return err
		}
		enc := symhash.NewEncoder(symhash.Global, func(def symhash.Term) { dw.Emit(def) })
		budgetQ := 450
		if thorough {
			budgetQ = 2500
		}
		nq := 0
		runs := 0
		for nq < budgetQ {
			sc := &bscenario{kind: "bplus", reopenAt: map[int]bool{}}
			if runs%3 == 0 {
				sc.kind = "rocks"
			}
			var n int
			switch rng.Intn(4) {
			case 0: // tiny, exhaustive queries after every insertion, many collisions
				n = 1 + rng.Intn(5)
				sc.full = true
			case 1:
				n = 4 + rng.Intn(20)
			default:
				n = 8 + rng.Intn(56)
				if thorough && rng.Intn(4) == 0 {
					n = 64 + rng.Intn(200)
				}
			}
			dup := rng.Intn(3) == 0
			if n > len(u) {
				n = len(u)
			}
			if dup {
				// duplicates: draw with replacement from a small pool (structured keys first)
				pool := 2 + rng.Intn(8)
				for i := 0; i < n; i++ {
					sc.events = append(sc.events, u[rng.Intn(pool)])
				}
			} else {
				// distinct events: structured keys are more likely to come early
				perm := rng.Perm(len(u))
				if rng.Intn(2) == 0 {
					sort.Slice(perm, func(i, j int) bool {
						wi, wj := perm[i], perm[j]
						if wi >= 14 {
							wi = 14 + rng.Intn(40)
						}
						if wj >= 14 {
							wj = 14 + rng.Intn(40)
						}
						return wi < wj
					})
				}
				for i := 0; i < n; i++ {
					sc.events = append(sc.events, u[perm[i]])
				}
			}
			sc.splits, sc.singles = randomSplits(rng, len(sc.events), 5)
			if sc.kind == "rocks" {
				for bi := range sc.splits {
					if rng.Intn(4) == 0 {
						sc.reopenAt[bi] = true
					}
				}
			}
			q, err := runBalloonScenario(tw, enc, sc, rng, tmp, runs%4 == 1)
			if err != nil {
				tw.Close()
				dw.Close()
				return fmt.Errorf("scenario failed: %v", err)
			}
			nq += q
			runs++
			stats["runs"]++
			stats["queries"] += q
			stats["events"] += len(sc.events)
		}
		tw.Close()
		if dw.Lines == 0 {
			dw.Emit(trace.Ev{"h": []interface{}{}})
		}
		dw.Close()
		stats["lines"] += tw.Lines
		stats["defs"] += dw.Lines
	}
	b, _ := json.Marshal(stats)
	fmt.Println(string(b))
	return nil
}
