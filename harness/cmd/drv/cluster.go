package main

// cluster driver (C05, C06, C08, C09, C10, C16): real 3-node clusters (real raft over loopback,
// real RocksDB, gRPC state transfer) with the symbolic hasher and the gated store.

import (
	"sort"
	"crypto/sha256"
	"encoding/json"
	"flag"
	"fmt"
	"io/ioutil"
	"math/rand"
	"os"
	"path/filepath"
	"reflect"
	"sync"
	"time"

	"github.com/bbva/qed/balloon"
	"github.com/bbva/qed/crypto/hashing"
	"github.com/bbva/qed/protocol"
	"github.com/bbva/qed/storage"

	"verif/harness/gate"
	"verif/harness/qcluster"
	"verif/harness/symhash"
	"verif/harness/trace"
)

func init() { drivers["cluster"] = clusterDriver }

type cl struct {
	tw    *trace.Writer
	enc   *symhash.Encoder
	rng   *rand.Rand
	dir   string
	nodes []*qcluster.Node
	mu    sync.Mutex
	snaps map[uint64]*balloon.Snapshot // snapshots acknowledged by a leader, by version
	log   [][]byte                     // digests by version as acknowledged
	univ  [][]byte
	next  int
	q     int
}

func (c *cl) emit(e trace.Ev) { c.tw.Emit(e) }

func (c *cl) hook(id int) func(g *gate.Store) {
	return func(g *gate.Store) {
		g.OnBefore = func(mi *gate.MutateInfo) {
			leaves := []interface{}{}
			for _, l := range mi.Leaves {
				args := symhash.Global.Args(l)
				if len(args) > 0 {
					leaves = append(leaves, hx(args[0]))
				} else {
					leaves = append(leaves, "?")
				}
			}
			first := uint64(0)
			if len(mi.LeafIdx) > 0 {
				first = mi.LeafIdx[0]
			}
			c.emit(trace.Ev{"a": "pbegin", "n": id, "idx": mi.Fsm.Index, "bver": mi.Fsm.BalloonVersion, "hasfsm": mi.HasFsm,
				"prev": mi.Meta.PreviousVersion, "new": mi.Meta.NewVersion, "hasmeta": mi.HasMeta, "leaves": leaves, "first": first})
		}
		g.OnAfter = func(mi *gate.MutateInfo) {
			c.emit(trace.Ev{"a": "pend", "n": id, "err": mi.Err != nil})
		}
		g.OnLoad = func(phase string) {
			c.emit(trace.Ev{"a": "load", "n": id, "phase": phase})
		}
	}
}

func (c *cl) startNode(id int, bootstrap bool, seeds []string) error {
	n := c.nodes[id-1]
	c.emit(trace.Ev{"a": "boot", "n": id})
	err := n.Start(qcluster.Opts{Bootstrap: bootstrap, Seeds: seeds, Hook: c.hook(id)})
	ev := trace.Ev{"a": "start", "n": id, "err": err != nil}
	if err == nil {
		idx, bver := n.Raft.VerifFSMState()
		ev["idx"], ev["bver"], ev["version"] = idx, bver, n.Raft.VerifBalloonVersion()
	} else {
		ev["errmsg"] = truncate(err.Error(), 200)
	}
	c.emit(ev)
	return err
}

func (c *cl) stopNode(id int) {
	n := c.nodes[id-1]
	if !n.Up {
		return
	}
	var err error
	pan, msg := guard(func() { err = n.Stop() })
	ev := trace.Ev{"a": "stop", "n": id, "err": err != nil || pan, "leak": int(n.Gate.LeakAtClose)}
	if pan {
		ev["panic"] = truncate(msg, 160)
	}
	c.emit(ev)
}

func (c *cl) leader() *qcluster.Node {
	var l *qcluster.Node
	qcluster.WaitFor(15*time.Second, func() bool { l = qcluster.Leader(c.nodes); return l != nil })
	return l
}

func (c *cl) freshDigest() []byte {
	if c.next < len(c.univ) {
		d := c.univ[c.next]
		c.next++
		return d
	}
	return c.univ[c.rng.Intn(len(c.univ))]
}

// add sends a bulk to the leader and records the acknowledgement.
func (c *cl) add(bulk [][]byte, single bool) bool {
	r := c.doAdd(bulk, single)
	if r == nil {
		return false
	}
	return c.emitAck(r, false)
}

type addRes struct {
	leader int
	bulk   [][]byte
	snaps  []*balloon.Snapshot
	err    error
	pan    bool
	msg    string
}

// doAdd performs the insertion on the leader without recording anything (concurrent writers
// record their acknowledgements afterwards, ordered by the versions they were given)
func (c *cl) doAdd(bulk [][]byte, single bool) *addRes {
	l := c.leader()
	if l == nil {
		c.emit(trace.Ev{"a": "noleader"})
		return nil
	}
	evs := make([][]byte, len(bulk))
	for i, d := range bulk {
		evs[i] = symhash.EventFor(d)
	}
	r := &addRes{leader: l.ID, bulk: bulk}
	r.pan, r.msg = guard(func() {
		if single && len(bulk) == 1 {
			var s *balloon.Snapshot
			s, r.err = l.Raft.Add(evs[0])
			if r.err == nil {
				r.snaps = []*balloon.Snapshot{s}
			}
		} else {
			r.snaps, r.err = l.Raft.AddBulk(evs)
		}
	})
	return r
}

// emitAck records an acknowledgement. big: the event carries every returned version and event
// digest but only a sample of the snapshots' tree digests (first, last, two others)
func (c *cl) emitAck(r *addRes, big bool) bool {
	bl := make([]interface{}, len(r.bulk))
	for i, d := range r.bulk {
		bl[i] = hx(d)
	}
	ev := trace.Ev{"a": "ack", "n": r.leader, "bulk": bl, "err": r.err != nil || r.pan}
	if big {
		ev["a"] = "ackbig"
	}
	if r.pan {
		ev["panic"] = truncate(r.msg, 160)
	}
	if r.err != nil {
		ev["errmsg"] = truncate(r.err.Error(), 160)
	}
	sl := []interface{}{}
	vs, es := []interface{}{}, []interface{}{}
	c.mu.Lock()
	defer c.mu.Unlock()
	pick := map[int]bool{0: true, len(r.snaps) - 1: true}
	if big && len(r.snaps) > 3 {
		pick[1+c.rng.Intn(len(r.snaps)-2)] = true
		pick[len(r.snaps)/2] = true
		if len(r.snaps) > 257 {
			pick[255], pick[256] = true, true
		}
	}
	for i, s := range r.snaps {
		if !big || pick[i] {
			sl = append(sl, trace.Ev{"i": i + 1, "v": s.Version, "e": hx(s.EventDigest), "hist": c.enc.Enc(s.HistoryDigest), "hyper": c.enc.Enc(s.HyperDigest)})
		}
		vs = append(vs, s.Version)
		es = append(es, hx(s.EventDigest))
		c.snaps[s.Version] = s
		for uint64(len(c.log)) <= s.Version {
			c.log = append(c.log, nil)
		}
		c.log[s.Version] = s.EventDigest
	}
	ev["snaps"] = sl
	if big {
		ev["vs"], ev["es"] = vs, es
	}
	c.emit(ev)
	return r.err == nil && !r.pan
}

// quiesce waits until every running node has applied what the most advanced one has.
func (c *cl) quiesce() bool {
	ok := qcluster.WaitFor(20*time.Second, func() bool {
		var max uint64
		for _, n := range c.nodes {
			if n.Up {
				if i, _ := n.Raft.VerifFSMState(); i > max {
					max = i
				}
			}
		}
		for _, n := range c.nodes {
			if n.Up {
				if i, _ := n.Raft.VerifFSMState(); i != max {
					return false
				}
			}
		}
		return true
	})
	c.emit(trace.Ev{"a": "quiesce", "ok": ok})
	return ok
}

// converge waits until every running node reports the same applied index and version.
func (c *cl) converge(d time.Duration) bool {
	return qcluster.WaitFor(d, func() bool {
		var idx, ver uint64
		first := true
		for _, n := range c.nodes {
			if !n.Up {
				continue
			}
			i, _ := n.Raft.VerifFSMState()
			v := n.Raft.VerifBalloonVersion()
			if first {
				idx, ver, first = i, v, false
			} else if i != idx || v != ver {
				return false
			}
		}
		return true
	})
}

func (c *cl) pathTerms(p map[string]hashing.Digest) trace.Ev {
	o := trace.Ev{}
	for k, v := range p {
		o[k] = c.enc.Enc(v)
	}
	return o
}

// member asks node id for a membership proof and verifies it, through the wire format,
// against the snapshots the LEADER acknowledged.
func (c *cl) member(id int, d []byte, q uint64, latest bool) { c.memberQ(id, d, q, latest, 0)() }

// memberQ performs the query now and returns the function that verifies and records it
// (inWindow > 0: the query ran while an insertion of that many events was in flight).
func (c *cl) memberQ(id int, d []byte, q uint64, latest bool, inWindow int) func() {
	n := c.nodes[id-1]
	c.mu.Lock()
	c.q++
	c.mu.Unlock()
	ev := trace.Ev{"a": "nmember", "n": id, "d": hx(d), "q": q, "latest": latest}
	var proof *balloon.MembershipProof
	var err error
	pan, msg := guard(func() {
		if latest {
			proof, err = n.Raft.QueryDigestMembership(d)
		} else {
			proof, err = n.Raft.QueryDigestMembershipConsistency(d, q)
		}
	})
	if inWindow > 0 {
		ev["inwindow"] = inWindow
	}
	if pan || err != nil {
		ev["err"] = true
		if pan {
			ev["panic"] = truncate(msg, 160)
		} else {
			ev["errmsg"] = truncate(err.Error(), 160)
		}
		return func() { c.emit(ev) }
	}
	return func() { c.memberFinish(ev, proof, d) }
}

func (c *cl) memberFinish(ev trace.Ev, proof *balloon.MembershipProof, d []byte) {
	ev["err"] = false
	ev["exists"], ev["actual"], ev["query"], ev["current"], ev["key"] = proof.Exists, proof.ActualVersion, proof.QueryVersion, proof.CurrentVersion, hx(proof.KeyDigest)
	mr := protocol.ToMembershipResult(nil, proof)
	raw, _ := json.Marshal(mr)
	var back protocol.MembershipResult
	werr := json.Unmarshal(raw, &back)
	ev["wire_fields"] = werr == nil && reflect.DeepEqual(mr.Hyper, back.Hyper) && mr.ActualVersion == back.ActualVersion
	ev["hyper"] = c.pathTerms(back.Hyper)
	ev["history"] = c.pathTerms(back.History)
	cur, qv := proof.CurrentVersion, proof.QueryVersion
	if qv > cur {
		qv = cur
	}
	c.mu.Lock()
	sq, okq := c.snaps[qv]
	sc, okc := c.snaps[cur]
	c.mu.Unlock()
	if okq && okc {
		snap := &balloon.Snapshot{EventDigest: d, HistoryDigest: sq.HistoryDigest, HyperDigest: sc.HyperDigest, Version: qv}
		var vLocal, vWire bool
		p1, _ := guard(func() { vLocal = proof.DigestVerify(d, snap) })
		p2, _ := guard(func() { vWire = protocol.ToBalloonProof(&back, symhash.New).DigestVerify(d, snap) })
		ev["v_local"], ev["v_wire"] = vLocal, vWire
		if p1 || p2 {
			ev["v_wire_panic"] = "verifier panicked"
		}
	}
	c.emit(ev)
}

func (c *cl) incr(id int, s, e uint64) { c.incrQ(id, s, e, 0)() }

func (c *cl) incrQ(id int, s, e uint64, inWindow int) func() {
	n := c.nodes[id-1]
	c.mu.Lock()
	c.q++
	c.mu.Unlock()
	ev := trace.Ev{"a": "nincr", "n": id, "s": s, "e": e}
	var proof *balloon.IncrementalProof
	var err error
	pan, msg := guard(func() { proof, err = n.Raft.QueryConsistency(s, e) })
	if inWindow > 0 {
		ev["inwindow"] = inWindow
	}
	if pan || err != nil {
		ev["err"] = true
		if pan {
			ev["panic"] = truncate(msg, 160)
		}
		return func() { c.emit(ev) }
	}
	return func() { c.incrFinish(ev, proof, s, e) }
}

func (c *cl) incrFinish(ev trace.Ev, proof *balloon.IncrementalProof, s, e uint64) {
	ev["err"] = false
	resp := protocol.ToIncrementalResponse(proof)
	raw, _ := json.Marshal(resp)
	var back protocol.IncrementalResponse
	json.Unmarshal(raw, &back)
	ev["rs"], ev["re"] = back.Start, back.End
	ev["path"] = c.pathTerms(back.AuditPath)
	c.mu.Lock()
	ss, oks := c.snaps[s]
	se, oke := c.snaps[e]
	c.mu.Unlock()
	if oks && oke {
		var v bool
		guard(func() {
			v = protocol.ToIncrementalProof(&back, symhash.New).Verify(ss, se)
		})
		ev["v_wire"] = v
	}
	c.emit(ev)
}

// dump hashes the complete content of every table of a node's store.
func (c *cl) dump(id int) {
	n := c.nodes[id-1]
	if !n.Up {
		return
	}
	hs := sha256.New()
	counts := trace.Ev{}
	for _, t := range []storage.Table{storage.HyperTable, storage.HyperCacheTable, storage.HistoryTable, storage.FSMStateTable} {
		rd := n.Gate.GetAll(t)
		cnt := 0
		for {
			buf := make([]*storage.KVPair, 256)
			k, err := rd.Read(buf)
			if k == 0 || err != nil {
				break
			}
			for i := 0; i < k; i++ {
				hs.Write([]byte{byte(t)})
				hs.Write(buf[i].Key)
				hs.Write([]byte{0xff})
				hs.Write(buf[i].Value)
				cnt++
			}
		}
		rd.Close()
		counts[t.String()] = cnt
	}
	idx, bver := n.Raft.VerifFSMState()
	c.emit(trace.Ev{"a": "dump", "n": id, "idx": idx, "bver": bver, "version": n.Raft.VerifBalloonVersion(), "digest": hx(hs.Sum(nil)), "counts": counts})
}

// checkAll: at a quiescent point, every running replica is dumped and queried.
func (c *cl) checkAll(full bool) {
	c.quiesce()
	nlog := uint64(len(c.log))
	for _, n := range c.nodes {
		if !n.Up {
			continue
		}
		c.dump(n.ID)
		if nlog == 0 {
			continue
		}
		for t := 0; t < 6 || (full && t < int(nlog)); t++ {
			i := uint64(c.rng.Int63n(int64(nlog)))
			if full && t < int(nlog) {
				i = uint64(t)
			}
			d := c.log[i]
			if d == nil {
				continue
			}
			c.member(n.ID, d, nlog-1, true)
			c.member(n.ID, d, i+uint64(c.rng.Int63n(int64(nlog-i))), false)
		}
		for t := 0; t < 4; t++ {
			e := uint64(c.rng.Int63n(int64(nlog)))
			s := uint64(c.rng.Int63n(int64(e + 1)))
			c.incr(n.ID, s, e)
		}
	}
}

func (c *cl) randBulk() ([][]byte, bool) {
	ln := 1
	if c.rng.Intn(2) == 0 {
		ln = 1 + c.rng.Intn(4)
	}
	b := [][]byte{}
	for i := 0; i < ln; i++ {
		b = append(b, c.freshDigest())
	}
	return b, c.rng.Intn(2) == 0
}

func (c *cl) followers() []*qcluster.Node {
	l := qcluster.Leader(c.nodes)
	out := []*qcluster.Node{}
	for _, n := range c.nodes {
		if n.Up && n != l {
			out = append(out, n)
		}
	}
	return out
}

func (c *cl) boot() error {
	if err := c.startNode(1, true, nil); err != nil {
		return err
	}
	if !qcluster.WaitFor(15*time.Second, c.nodes[0].Raft.IsLeader) {
		return fmt.Errorf("seed did not become leader")
	}
	seed := []string{c.nodes[0].Addr}
	for id := 2; id <= len(c.nodes); id++ {
		if err := c.startNode(id, false, seed); err != nil {
			return err
		}
	}
	return nil
}

func (c *cl) seeds(except int) []string {
	s := []string{}
	for _, n := range c.nodes {
		if n.ID != except && n.Up {
			s = append(s, n.Addr)
		}
	}
	return s
}

// ---- scenario: replicas agree across follower restarts and leader transfers (C05, C06, C08)
func (c *cl) scenarioReplicas(rounds int) error {
	if err := c.boot(); err != nil {
		return err
	}
	down := 0
	for r := 0; r < rounds; r++ {
		switch x := c.rng.Intn(10); {
		case x < 5:
			b, single := c.randBulk()
			c.add(b, single)
		case x < 6 && down == 0:
			fs := c.followers()
			if len(fs) > 0 {
				f := fs[c.rng.Intn(len(fs))]
				c.quiesceMaybe()
				c.stopNode(f.ID)
				down = f.ID
			}
		case x < 7 && down != 0:
			if err := c.startNode(down, false, c.seeds(down)); err != nil {
				return fmt.Errorf("restart of node %d failed: %v", down, err)
			}
			down = 0
		case x < 8:
			if l := qcluster.Leader(c.nodes); l != nil && len(c.followers()) > 0 {
				c.quiesce()
				err := l.Raft.VerifLeadershipTransfer()
				c.emit(trace.Ev{"a": "transfer", "n": l.ID, "err": err != nil})
				time.Sleep(200 * time.Millisecond)
			}
		default:
			c.checkAll(false)
		}
	}
	if down != 0 {
		if err := c.startNode(down, false, c.seeds(down)); err != nil {
			return fmt.Errorf("restart of node %d failed: %v", down, err)
		}
	}
	b, _ := c.randBulk()
	c.add(b, false)
	c.checkAll(true)
	return nil
}

func (c *cl) quiesceMaybe() {
	if c.rng.Intn(2) == 0 {
		c.quiesce()
	}
}

// ---- scenario: follower (returning or new) restored by state transfer (C09)
func (c *cl) scenarioRestore(newNode bool, changeLeader bool, one bool, hist, away string, second bool) error {
	// start 2 nodes (new-node case) or 3
	if err := c.startNode(1, true, nil); err != nil {
		return err
	}
	if !qcluster.WaitFor(15*time.Second, c.nodes[0].Raft.IsLeader) {
		return fmt.Errorf("seed did not become leader")
	}
	seed := []string{c.nodes[0].Addr}
	if err := c.startNode(2, false, seed); err != nil {
		return err
	}
	if !newNode {
		if err := c.startNode(3, false, seed); err != nil {
			return err
		}
		qcluster.WaitFor(10*time.Second, func() bool { return len(c.nodes[0].Raft.ClusterInfo().Nodes) == 3 })
		// the history the follower has seen before it goes away: nothing, exactly one event, or a few bulks
		switch {
		case one || hist == "none":
		case hist == "single":
			c.add([][]byte{c.freshDigest()}, c.rng.Intn(2) == 0)
		default:
			for i := 0; i < 1+c.rng.Intn(3); i++ {
				b, s := c.randBulk()
				c.add(b, s)
			}
		}
		c.quiesce()
		c.stopNode(3)
	}
	if one {
		// boundary: the log holds exactly one event (version 0) when it is compacted
		if len(c.log) == 0 {
			c.add([][]byte{c.freshDigest()}, c.rng.Intn(2) == 0)
		}
	} else {
		// the first insertion the follower misses is a single event or a bulk of several (the
		// state transfer resumes exactly there), then anything
		if away == "single" {
			c.add([][]byte{c.freshDigest()}, c.rng.Intn(2) == 0)
		} else {
			b := [][]byte{}
			for i := 0; i < 2+c.rng.Intn(3); i++ {
				b = append(b, c.freshDigest())
			}
			c.add(b, false)
		}
		for i := 0; i < c.rng.Intn(4); i++ {
			b, s := c.randBulk()
			c.add(b, s)
		}
	}
	c.quiesce()
	// force raft snapshots on the running nodes so that their logs are compacted
	for _, id := range []int{1, 2} {
		err := c.nodes[id-1].Raft.VerifForceSnapshot()
		c.emit(trace.Ev{"a": "snapshot", "n": id, "err": err != nil})
	}
	if changeLeader {
		if l := qcluster.Leader(c.nodes); l != nil {
			err := l.Raft.VerifLeadershipTransfer()
			c.emit(trace.Ev{"a": "transfer", "n": l.ID, "err": err != nil})
			time.Sleep(300 * time.Millisecond)
		}
	}
	// a node is always (re)started with its configured seeds, as an operator's unit file does: a
	// node with raft state ignores them, a node that never persisted any (new, or stopped right
	// after it asked to join) needs them
	seeds := c.seeds(3)
	if newNode {
		if l := c.leader(); l != nil {
			seeds = []string{l.Addr}
		}
	}
	// from here on node 3 is "the follower brought up to date by state transfer" (C09)
	c.emit(trace.Ev{"a": "rejoin", "n": 3})
	if err := c.startNode(3, false, seeds); err != nil {
		return fmt.Errorf("node 3 failed to (re)join: %v", err)
	}
	// the restored node must converge ...
	if !c.converge(60 * time.Second) {
		c.emit(trace.Ev{"a": "noconverge", "n": 3})
	}
	c.checkAll(true)
	// ... and compute the same digests for later insertions
	for i := 0; i < 2+c.rng.Intn(3); i++ {
		b, s := c.randBulk()
		c.add(b, s)
	}
	c.checkAll(true)
	// make the restored node the leader: its locally computed snapshots go to clients
	for t := 0; t < 4; t++ {
		l := c.leader()
		if l == nil || l.ID == 3 {
			break
		}
		c.quiesce()
		err := l.Raft.VerifLeadershipTransferTo("node3", c.nodes[2].Raft.VerifRaftAddr())
		c.emit(trace.Ev{"a": "transfer", "n": l.ID, "err": err != nil})
		time.Sleep(300 * time.Millisecond)
	}
	for i := 0; i < 2; i++ {
		b, s := c.randBulk()
		c.add(b, s)
	}
	c.checkAll(false)
	// the node that was brought up to date by state transfer now serves one itself: node 2 comes
	// back with an empty disk (replaced machine) and has to be given the whole log by the leader
	if l := c.leader(); second && l != nil && l.ID == 3 && c.nodes[1].Up {
		c.stopNode(2)
		os.RemoveAll(c.nodes[1].Dir)
		c.emit(trace.Ev{"a": "wipe", "n": 2})
		b, s := c.randBulk()
		c.add(b, s)
		c.quiesce()
		for _, id := range []int{1, 3} {
			err := c.nodes[id-1].Raft.VerifForceSnapshot()
			c.emit(trace.Ev{"a": "snapshot", "n": id, "err": err != nil})
		}
		c.emit(trace.Ev{"a": "rejoin", "n": 2})
		if err := c.startNode(2, false, c.seeds(2)); err != nil {
			c.emit(trace.Ev{"a": "info", "what": "wiped node failed to start: " + truncate(err.Error(), 200)})
			c.emit(trace.Ev{"a": "noconverge", "n": 2})
			return nil
		}
		if !c.converge(60 * time.Second) {
			c.emit(trace.Ev{"a": "noconverge", "n": 2})
		}
		c.checkAll(false)
		b, s = c.randBulk()
		c.add(b, s)
		c.checkAll(false)
	}
	return nil
}

// ---- scenario: clean stop while a query is being answered (C08): the gated store parks a
// membership query inside its history proof (a read of the history table on a node whose caches
// are cold), then the node is stopped. Shutdown must wait for the query (or make it fail cleanly):
// it must not complete underneath it, and the process must survive.
func (c *cl) scenarioStopLoad(rounds int) error {
	if err := c.startNode(1, true, nil); err != nil {
		return err
	}
	n := c.nodes[0]
	if !qcluster.WaitFor(15*time.Second, n.Raft.IsLeader) {
		return fmt.Errorf("seed did not become leader")
	}
	for i := 0; i < 6+c.rng.Intn(10); i++ {
		b, s := c.randBulk()
		c.add(b, s)
	}
	for r := 0; r < rounds; r++ {
		// cold caches: restart first
		c.stopNode(1)
		if err := c.startNode(1, false, nil); err != nil {
			return err
		}
		if !qcluster.WaitFor(15*time.Second, n.Raft.IsLeader) {
			return fmt.Errorf("node did not become leader again")
		}
		nlog := uint64(len(c.log))
		i := uint64(c.rng.Int63n(int64(nlog)))
		d := c.log[i]
		if d == nil {
			continue
		}
		q := i + uint64(c.rng.Int63n(int64(nlog-i)))
		release := n.Gate.HoldGet(storage.HistoryTable)
		var fin func()
		qdone := make(chan struct{})
		go func() { fin = c.memberQ(1, d, q, r%2 == 0, 0); close(qdone) }()
		parked := false
		select {
		case <-n.Gate.GetHeld:
			parked = true
		case <-qdone:
		case <-time.After(5 * time.Second):
		}
		if !parked {
			n.Gate.CancelGet()
			close(release)
			<-qdone
			fin()
			c.emit(trace.Ev{"a": "info", "what": "query did not read the history table: nothing to park"})
			continue
		}
		c.emit(trace.Ev{"a": "info", "what": "query parked inside its history proof; stopping the node"})
		sdone := make(chan struct{})
		go func() { c.stopNode(1); close(sdone) }()
		early := false
		select {
		case <-sdone:
			early = true
		case <-time.After(1500 * time.Millisecond):
		}
		if early {
			c.emit(trace.Ev{"a": "stopearly", "n": 1})
		}
		close(release)
		<-qdone
		<-sdone
		fin()
		if err := c.startNode(1, false, nil); err != nil {
			return err
		}
		if !qcluster.WaitFor(15*time.Second, n.Raft.IsLeader) {
			return fmt.Errorf("node did not become leader again")
		}
		b, s := c.randBulk()
		c.add(b, s)
		c.checkAll(false)
	}
	return nil
}

// ---- scenario: concurrent writers (C05): one client sends a large bulk (around and beyond 256
// events) while others insert single events and small bulks; every call must get consecutive
// versions in request order, whatever is committed in between. Acknowledgements are recorded
// after the round, ordered by the versions they name.
func (c *cl) scenarioWriters(rounds int) error {
	if err := c.boot(); err != nil {
		return err
	}
	sizes := []int{257, 256, 300 + c.rng.Intn(300), 255, 513 + c.rng.Intn(100)}
	for r := 0; r < rounds; r++ {
		n := sizes[r%len(sizes)]
		big := make([][]byte, n)
		for i := range big {
			big[i] = c.freshDigest()
		}
		small := [][][]byte{}
		for w := 0; w < 3; w++ {
			for k := 0; k < 4; k++ {
				b, _ := c.randBulk()
				small = append(small, b)
			}
		}
		var mu sync.Mutex
		res := []*addRes{}
		var wg sync.WaitGroup
		start := make(chan struct{})
		put := func(r *addRes) {
			if r != nil {
				mu.Lock()
				res = append(res, r)
				mu.Unlock()
			}
		}
		wg.Add(1)
		go func() { defer wg.Done(); <-start; put(c.doAdd(big, false)) }()
		for w := 0; w < 3; w++ {
			w := w
			wg.Add(1)
			go func() {
				defer wg.Done()
				<-start
				for k := 0; k < 4; k++ {
					b := small[w*4+k]
					put(c.doAdd(b, len(b) == 1 && k%2 == 0))
				}
			}()
		}
		close(start)
		wg.Wait()
		first := func(r *addRes) uint64 {
			if len(r.snaps) > 0 {
				return r.snaps[0].Version
			}
			return ^uint64(0)
		}
		sort.SliceStable(res, func(i, j int) bool { return first(res[i]) < first(res[j]) })
		c.emit(trace.Ev{"a": "info", "what": fmt.Sprintf("concurrent writers: one bulk of %d, 12 small insertions", n)})
		for _, r := range res {
			c.emitAck(r, len(r.bulk) > 16)
		}
		// light check (unfolding the tree terms of a log of this size is what costs in TLC):
		// whole-store dumps of every replica, two membership proofs and one consistency proof
		// from a follower
		c.quiesce()
		for _, nd := range c.nodes {
			if nd.Up {
				c.dump(nd.ID)
			}
		}
		if fs := c.followers(); len(fs) > 0 && len(c.log) > 0 {
			nlog := uint64(len(c.log))
			f := fs[c.rng.Intn(len(fs))]
			if d := c.log[nlog-1]; d != nil {
				c.member(f.ID, d, nlog-1, true)
			}
			i := uint64(c.rng.Int63n(int64(nlog)))
			if d := c.log[i]; d != nil {
				c.member(f.ID, d, i+uint64(c.rng.Int63n(int64(nlog-i))), false)
			}
			e := uint64(c.rng.Int63n(int64(nlog)))
			c.incr(f.ID, uint64(c.rng.Int63n(int64(e+1))), e)
		}
	}
	return nil
}

// ---- scenario: queries (and backups) inside the compute->persist window of an insertion (C10, C16)
// The gated store holds db.Mutate of the next apply before the real write; while it is held,
// other goroutines issue every kind of query for old and in-flight events.
func (c *cl) scenarioWindow(rounds int) error {
	if err := c.startNode(1, true, nil); err != nil {
		return err
	}
	n := c.nodes[0]
	if !qcluster.WaitFor(15*time.Second, n.Raft.IsLeader) {
		return fmt.Errorf("seed did not become leader")
	}
	for i := 0; i < 1+c.rng.Intn(4); i++ {
		b, s := c.randBulk()
		c.add(b, s)
	}
	for r := 0; r < rounds; r++ {
		bulk, single := c.randBulk()
		// proofs obtained BEFORE the insertion and kept by the caller while it is applied: they
		// are encoded and verified afterwards and must still be the proofs that were returned
		retained := []func(){}
		if pre := uint64(len(c.log)); pre > 0 {
			for t := 0; t < 3; t++ {
				i := uint64(c.rng.Int63n(int64(pre)))
				if t == 0 {
					i = pre - 1
				}
				if d := c.log[i]; d != nil {
					retained = append(retained, c.memberQ(1, d, i+uint64(c.rng.Int63n(int64(pre-i))), t == 1, len(bulk)))
				}
			}
			e := uint64(c.rng.Int63n(int64(pre)))
			retained = append(retained, c.incrQ(1, uint64(c.rng.Int63n(int64(e+1))), e, len(bulk)))
		}
		var release chan struct{}
		done := make(chan bool, 1)
		if r%2 == 1 {
			// park the insertion in the middle of its in-memory computation (the balloon has
			// advanced its version and the history tree, and reads the hyper table)
			release = n.Gate.HoldGet(storage.HyperTable)
			go func() { done <- c.add(bulk, single) }()
			select {
			case <-n.Gate.GetHeld:
				c.emit(trace.Ev{"a": "info", "what": "window open (insertion parked at its first read of the hyper table)"})
			case <-time.After(3 * time.Second):
				// this insertion did not read the table: nothing to park
				n.Gate.CancelGet()
				close(release)
				<-done
				for _, f := range retained {
					f()
				}
				continue
			}
		} else {
			release = n.Gate.HoldBefore(1)
			go func() { done <- c.add(bulk, single) }()
			select {
			case <-n.Gate.Held:
			case <-time.After(10 * time.Second):
				close(release)
				return fmt.Errorf("apply never reached the store")
			}
			// inside the window: the balloon has computed the insertion, the store has not been written
			c.emit(trace.Ev{"a": "info", "what": "window open"})
		}
		nlog := uint64(len(c.log))
		var wg sync.WaitGroup
		var fmu sync.Mutex
		finishers := []func(){}
		work := func(f func()) {
			wg.Add(1)
			go func() { defer wg.Done(); f() }()
		}
		m := len(bulk)
		mq := func(d []byte, q uint64, latest bool) {
			f := c.memberQ(1, d, q, latest, m)
			fmu.Lock()
			finishers = append(finishers, f)
			fmu.Unlock()
		}
		iq := func(s, e uint64) {
			f := c.incrQ(1, s, e, m)
			fmu.Lock()
			finishers = append(finishers, f)
			fmu.Unlock()
		}
		for t := 0; t < 3; t++ {
			if nlog > 0 {
				d := c.log[c.rng.Int63n(int64(nlog))]
				work(func() { mq(d, nlog-1, true) })
				q := uint64(c.rng.Int63n(int64(nlog)))
				work(func() { mq(d, q, false) })
				q2 := nlog - 1 + uint64(c.rng.Intn(len(bulk)+1))
				work(func() { mq(d, q2, false) })
			}
		}
		for _, d := range bulk { // the events in flight
			d := d
			work(func() { mq(d, nlog+uint64(len(bulk))-1, true) })
			work(func() { mq(d, nlog+uint64(len(bulk))-1, false) })
		}
		for t := 0; t < 4; t++ {
			e := uint64(c.rng.Int63n(int64(nlog) + int64(len(bulk))))
			s := uint64(c.rng.Int63n(int64(e + 1)))
			work(func() { iq(s, e) })
		}
		if c.rng.Intn(2) == 0 {
			work(func() { c.backup(1) })
		}
		finished := make(chan struct{})
		go func() { wg.Wait(); close(finished) }()
		select {
		case <-finished:
			c.emit(trace.Ev{"a": "info", "what": "window queries answered"})
		case <-time.After(2 * time.Second):
			// queries may legitimately wait for the insertion to complete
			c.emit(trace.Ev{"a": "info", "what": "queries wait for the insertion"})
		}
		close(release)
		<-done
		select {
		case <-finished:
		case <-time.After(20 * time.Second):
			c.emit(trace.Ev{"a": "hang", "n": 1})
			return fmt.Errorf("queries never returned")
		}
		// the acknowledgement is recorded now: verify what the queries returned inside the window
		for _, f := range finishers {
			f()
		}
		for _, f := range retained {
			f()
		}
		if c.rng.Intn(2) == 0 {
			c.checkAll(false)
		}
		if c.rng.Intn(2) == 0 {
			c.backupRace()
		}
	}
	c.backupRace()
	c.checkAll(true)
	c.restoreBackups()
	return nil
}

func (c *cl) backup(id int) {
	n := c.nodes[id-1]
	var err error
	emitted := false
	mk := func(failed bool) trace.Ev {
		ev := trace.Ev{"a": "backup", "n": id, "err": failed}
		ids := []interface{}{}
		for _, bi := range n.Gate.ManagedStore.GetBackupsInfo() {
			ids = append(ids, trace.Ev{"id": bi.ID, "meta": bi.Metadata})
		}
		ev["list"] = ids
		return ev
	}
	// the event is written at the linearization point: the engine has captured the store and
	// CreateBackup has not yet returned (it still excludes insertions), so no later insertion
	// can be recorded before it
	n.Gate.OnBackup = func(e error) {
		emitted = true
		c.emit(mk(e != nil))
	}
	pan, msg := guard(func() { err = n.Raft.CreateBackup() })
	n.Gate.OnBackup = nil
	if emitted {
		if pan || err != nil {
			c.emit(trace.Ev{"a": "info", "what": "CreateBackup failed after the engine copied the store: " + truncate(msg, 120)})
		}
		return
	}
	ev := mk(true)
	if pan {
		ev["panic"] = truncate(msg, 160)
	}
	c.emit(ev)
}

// backupRace: an insertion is submitted after CreateBackup has read the version it records and
// before the engine captures the store (the gate holds the copy). A correct node makes the
// insertion wait; the recorded version must be the version of what is captured either way.
func (c *cl) backupRace() {
	n := c.nodes[0]
	bulk, single := c.randBulk()
	release := n.Gate.HoldBackup()
	bdone := make(chan struct{})
	go func() { c.backup(1); close(bdone) }()
	select {
	case <-n.Gate.BackupHeld:
	case <-bdone:
		c.emit(trace.Ev{"a": "info", "what": "backup never reached the store"})
		return
	case <-time.After(10 * time.Second):
		close(release)
		<-bdone
		return
	}
	c.emit(trace.Ev{"a": "info", "what": "backup copy held, insertion submitted"})
	adone := make(chan bool, 1)
	go func() { adone <- c.add(bulk, single) }()
	select {
	case <-adone:
		adone <- true
		c.emit(trace.Ev{"a": "info", "what": "insertion completed while the backup was being taken"})
	case <-time.After(1500 * time.Millisecond):
	}
	close(release)
	<-bdone
	select {
	case <-adone:
	case <-time.After(20 * time.Second):
		c.emit(trace.Ev{"a": "hang", "n": 1})
	}
}

// ---- scenario: backups (C16): add / backup / add / delete-backup ..., then every existing backup is
// restored into a fresh directory and opened as a new node.
func (c *cl) scenarioBackup(rounds int) error {
	if err := c.startNode(1, true, nil); err != nil {
		return err
	}
	n := c.nodes[0]
	if !qcluster.WaitFor(15*time.Second, n.Raft.IsLeader) {
		return fmt.Errorf("seed did not become leader")
	}
	if c.rng.Intn(3) == 0 {
		c.backup(1) // backup of an empty log
	}
	for r := 0; r < rounds; r++ {
		switch x := c.rng.Intn(10); {
		case x < 6:
			b, s := c.randBulk()
			c.add(b, s)
		case x < 9:
			c.backup(1)
		default:
			infos := n.Raft.ListBackups()
			if len(infos) > 0 {
				id := infos[c.rng.Intn(len(infos))].ID
				err := n.Raft.DeleteBackup(uint32(id))
				after := []interface{}{}
				for _, bi := range n.Raft.ListBackups() {
					after = append(after, trace.Ev{"id": bi.ID, "meta": bi.Metadata})
				}
				c.emit(trace.Ev{"a": "delbackup", "n": 1, "id": id, "err": err != nil, "list": after})
			}
		}
	}
	c.backup(1)
	b, s := c.randBulk()
	c.add(b, s)
	c.checkAll(false)
	c.restoreBackups()
	return nil
}

// restoreBackups restores every existing backup of node 1 into a fresh node 2 (own db and raft
// directories), checks what it reports and proves, and inserts one more event.
func (c *cl) restoreBackups() {
	n := c.nodes[0]
	if !n.Up {
		return
	}
	infos := n.Raft.ListBackups()
	for i, bi := range infos {
		if i >= 3 && i < len(infos)-1 {
			continue
		}
		dir := filepath.Join(c.dir, fmt.Sprintf("restored_%d", bi.ID))
		os.MkdirAll(filepath.Join(dir, "db"), 0755)
		err := n.Gate.RestoreFromBackup(uint32(bi.ID), filepath.Join(dir, "db"), filepath.Join(dir, "db"))
		c.emit(trace.Ev{"a": "restorebackup", "id": bi.ID, "meta": bi.Metadata, "err": err != nil})
		if err != nil {
			continue
		}
		r := &qcluster.Node{ID: 2, Dir: dir}
		c.nodes[1] = r
		c.emit(trace.Ev{"a": "boot", "n": 2})
		serr := r.Start(qcluster.Opts{Bootstrap: true, Hook: c.hook(2)})
		ev := trace.Ev{"a": "bstart", "n": 2, "id": bi.ID, "meta": bi.Metadata, "err": serr != nil}
		if serr != nil {
			ev["errmsg"] = truncate(serr.Error(), 160)
			c.emit(ev)
			continue
		}
		qcluster.WaitFor(15*time.Second, r.Raft.IsLeader)
		r.Raft.VerifBarrier(5 * time.Second)
		idx, bver := r.Raft.VerifFSMState()
		ev["idx"], ev["bver"], ev["version"] = idx, bver, r.Raft.VerifBalloonVersion()
		c.emit(ev)
		if i%2 == 1 {
			// the restored node is stopped and started again before its first insertion: what it
			// did to become usable (applied-index reset) has to be durable
			c.stopNode(2)
			if err := c.startNode(2, false, nil); err != nil {
				c.emit(trace.Ev{"a": "info", "what": "restored node failed to restart: " + truncate(err.Error(), 160)})
				os.RemoveAll(dir)
				continue
			}
			qcluster.WaitFor(15*time.Second, r.Raft.IsLeader)
			r.Raft.VerifBarrier(5 * time.Second)
		}
		// membership + consistency of the first v+1 events against the ORIGINAL snapshots
		ver := r.Raft.VerifBalloonVersion()
		for v := uint64(0); v < ver && v < uint64(len(c.log)); v++ {
			c.memberQ(2, c.log[v], ver-1, true, 0)()
			if v+1 < ver {
				c.incrQ(2, v, ver-1, 0)()
			}
		}
		// events added after the backup must be unknown
		if ver < uint64(len(c.log)) {
			c.memberQ(2, c.log[len(c.log)-1], ver, true, 0)()
		}
		// the next event must get version v+1 (recorded as a 'badd' event: the restored node is its own log)
		d := c.freshDigest()
		var snap *balloon.Snapshot
		var aerr error
		pan, msg := guard(func() { snap, aerr = r.Raft.Add(symhash.EventFor(d)) })
		ae := trace.Ev{"a": "badd", "n": 2, "id": bi.ID, "meta": bi.Metadata, "d": hx(d), "err": aerr != nil || pan, "was": ver}
		if pan {
			ae["panic"] = truncate(msg, 200)
		}
		if aerr != nil {
			ae["errmsg"] = truncate(aerr.Error(), 200)
		}
		if snap != nil {
			ae["v"] = snap.Version
			ae["hist"] = c.enc.Enc(snap.HistoryDigest)
			ae["hyper"] = c.enc.Enc(snap.HyperDigest)
		}
		c.emit(ae)
		r.Stop()
		c.emit(trace.Ev{"a": "bstop", "n": 2})
		os.RemoveAll(dir)
	}
}

func (c *cl) closeAll() {
	for _, n := range c.nodes {
		if n.Up {
			c.stopNode(n.ID)
		}
	}
}

func clusterDriver(args []string) error {
	fs := flag.NewFlagSet("cluster", flag.ExitOnError)
	out, seed, tier := commonFlags(fs)
	files := fs.Int("files", 1, "")
	first := fs.Int("fi", 0, "")
	scen := fs.String("scenario", "replicas", "replicas|restore")
	fs.Parse(args)
	thorough := *tier == "thorough"
	qcluster.UseSymbolicHasher()
	tmp, err := ioutil.TempDir("", "drvcl")
	if err != nil {
		return err
	}
	defer os.RemoveAll(tmp)
	stats := map[string]int{}
	for fi := *first; fi < *first+*files; fi++ {
		rng := rand.New(rand.NewSource(*seed*32452843 + int64(fi)))
		tw, err := trace.Create(filepath.Join(*out, fmt.Sprintf("cluster_%02d.ndjson", fi)))
		if err != nil {
			return err
		}
		dw, err := trace.Create(filepath.Join(*out, fmt.Sprintf("cluster_%02d.defs.ndjson", fi)))
		if err != nil {
			return err
		}
		enc := symhash.NewEncoder(symhash.Global, func(def symhash.Term) { dw.Emit(def) })
		usize := 14 + 40
		if *scen == "writers" {
			usize = 14 + 1200
			if thorough {
				usize = 14 + 3200
			}
		}
		u := makeUniverse(rng, usize)
		keys := trace.Ev{}
		for _, k := range u {
			keys[hx(k)] = bitsOf(k)
		}
		tw.Emit(trace.Ev{"a": "universe", "keys": keys})
		runs := 1
		if thorough {
			runs = 3
		}
		if *scen == "restore" {
			runs = 2
			if thorough {
				runs = 5
			}
		}
		if *scen == "writers" {
			runs = 1
		}
		for run := 0; run < runs; run++ {
			dir, _ := ioutil.TempDir(tmp, "cl")
			c := &cl{tw: tw, enc: enc, rng: rng, dir: dir, snaps: map[uint64]*balloon.Snapshot{}, univ: u}
			perm := rng.Perm(len(u))
			c.univ = make([][]byte, len(u))
			for i, p := range perm {
				c.univ[i] = u[p]
			}
			for id := 1; id <= 3; id++ {
				c.nodes = append(c.nodes, &qcluster.Node{ID: id, Dir: filepath.Join(dir, fmt.Sprintf("n%d", id))})
			}
			tw.Emit(trace.Ev{"a": "reset", "nodes": 3, "scenario": *scen})
			var serr error
			switch *scen {
			case "replicas":
				rounds := 14
				if thorough {
					rounds = 40
				}
				serr = c.scenarioReplicas(rounds)
			case "restore":
				// variants are enumerated, not drawn: (new node | old node with history none/single/several)
				// x (first missed insertion single/bulk) x (leader change) + the one-event logs
				type rv struct {
					newNode, changeLeader, one bool
					hist, away                 string
				}
				table := []rv{
					{false, false, false, "several", "single"},
					{true, false, false, "", "bulk"},
					{false, true, false, "single", "bulk"},
					{false, false, true, "", ""},
					{false, false, false, "several", "bulk"},
					{true, true, false, "", "single"},
					{false, true, false, "single", "single"},
					{false, false, false, "none", "single"},
					{true, false, true, "", ""},
					{false, true, false, "several", "single"},
					{false, true, false, "none", "bulk"},
					{false, false, false, "single", "bulk"},
					{true, true, true, "", ""},
					{false, true, false, "several", "bulk"},
				}
				v := table[(fi*runs+run+int(*seed))%len(table)]
				tw.Emit(trace.Ev{"a": "info", "what": fmt.Sprintf("restore variant new=%v leaderchange=%v one=%v hist=%s away=%s", v.newNode, v.changeLeader, v.one, v.hist, v.away)})
				serr = c.scenarioRestore(v.newNode, v.changeLeader, v.one, v.hist, v.away, (fi*runs+run+int(*seed))%2 == 0)
			case "backup":
				rounds := 10
				if thorough {
					rounds = 30
				}
				serr = c.scenarioBackup(rounds)
			case "stopload":
				serr = c.scenarioStopLoad(3)
			case "writers":
				rounds := 1
				if thorough {
					rounds = 3
				}
				serr = c.scenarioWriters(rounds)
			case "window":
				rounds := 5
				if thorough {
					rounds = 20
				}
				serr = c.scenarioWindow(rounds)
			}
			if serr != nil {
				tw.Emit(trace.Ev{"a": "scenario_error", "msg": truncate(serr.Error(), 300)})
			}
			c.closeAll()
			os.RemoveAll(dir)
			stats["runs"]++
			stats["queries"] += c.q
			stats["events"] += len(c.log)
		}
		tw.Close()
		if dw.Lines == 0 {
			dw.Emit(trace.Ev{"h": []interface{}{}})
		}
		dw.Close()
		stats["lines"] += tw.Lines
	}
	b, _ := json.Marshal(stats)
	fmt.Println(string(b))
	return nil
}
