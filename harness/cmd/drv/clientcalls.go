package main

// clientcalls driver (C20, part 2): the REAL client.HTTPClient (its real call loops, retrier,
// redirect handling, discovery and health checks) against a scripted 3-node cluster reached
// through an in-memory http.RoundTripper installed on http.DefaultClient. Fault sequences
// (node down, 4xx, 5xx, leader change) are applied between calls; every request the "servers"
// receive and every call outcome is logged for Trace_Client.tla.

import (
	"bytes"
	"encoding/json"
	"errors"
	"flag"
	"fmt"
	"io/ioutil"
	"math/rand"
	"net/http"
	"path/filepath"
	"sync"
	"time"

	"github.com/bbva/qed/client"
	"github.com/bbva/qed/crypto/hashing"
	"github.com/bbva/qed/protocol"

	"verif/harness/trace"
)

func init() { drivers["clientcalls"] = clientCallsDriver }

type fakeCluster struct {
	mu     sync.Mutex
	tw     *trace.Writer
	hosts  []string
	mode   map[string]string // ok | down | e4xx | e5xx
	leader string
	nreq   int
	inCall int
}

func (f *fakeCluster) shards(self string) []byte {
	sh := protocol.Shards{NodeId: self, LeaderId: f.leader, URIScheme: "http", Shards: map[string]protocol.ShardDetail{}}
	for _, h := range f.hosts {
		sh.Shards[h] = protocol.ShardDetail{NodeId: h, HTTPAddr: h}
	}
	b, _ := json.Marshal(sh)
	return b
}

func resp(req *http.Request, code int, body []byte, hdr http.Header) *http.Response {
	if hdr == nil {
		hdr = http.Header{}
	}
	return &http.Response{StatusCode: code, Status: fmt.Sprintf("%d", code), Body: ioutil.NopCloser(bytes.NewReader(body)),
		Header: hdr, Request: req, ProtoMajor: 1, ProtoMinor: 1, ContentLength: int64(len(body))}
}

func (f *fakeCluster) RoundTrip(req *http.Request) (*http.Response, error) {
	f.mu.Lock()
	defer f.mu.Unlock()
	host := req.URL.Host
	mode, known := f.mode[host]
	f.nreq++
	f.inCall++
	if f.inCall > 300 {
		// a call that floods the cluster: stop logging (the call is reported as hung / unbounded)
		if f.inCall == 301 {
			f.tw.Emit(trace.Ev{"a": "flood"})
		}
		return nil, errors.New("connection refused")
	}
	ev := trace.Ev{"a": "rt", "host": host, "method": req.Method, "path": req.URL.Path, "told": ""}
	defer func() { f.tw.Emit(ev) }()
	if req.Body != nil {
		ioutil.ReadAll(req.Body)
		req.Body.Close()
	}
	if !known || mode == "down" {
		ev["resp"] = "none"
		return nil, errors.New("connection refused")
	}
	if mode == "e5xx" {
		ev["resp"] = "5xx"
		return resp(req, 503, []byte("unavailable"), nil), nil
	}
	if mode == "e4xx" {
		ev["resp"] = "4xx"
		return resp(req, 404, []byte("not found"), nil), nil
	}
	switch {
	case req.URL.Path == "/healthcheck":
		ev["resp"] = "2xx"
		return resp(req, 200, nil, nil), nil
	case req.URL.Path == "/info/shards":
		ev["resp"] = "2xx"
		ev["told"] = f.leader
		return resp(req, 200, f.shards(host), nil), nil
	case req.URL.Path == "/events" || req.URL.Path == "/events/bulk":
		if req.Method != "POST" {
			ev["resp"] = "4xx"
			return resp(req, 405, nil, nil), nil
		}
		if host != f.leader {
			if f.leader == "" {
				ev["resp"] = "5xx"
				return resp(req, 500, []byte("Leader not found!"), nil), nil
			}
			h := http.Header{}
			h.Set("Location", "http://"+f.leader+req.URL.Path)
			ev["resp"] = "3xx"
			ev["told"] = f.leader
			return resp(req, 301, f.shards(host), h), nil
		}
		ev["resp"] = "2xx"
		snap := protocol.Snapshot{Version: uint64(f.nreq)}
		b, _ := json.Marshal(snap)
		if req.URL.Path == "/events/bulk" {
			b, _ = json.Marshal([]protocol.Snapshot{snap})
		}
		return resp(req, 201, b, nil), nil
	default: // proofs: any live node serves reads
		ev["resp"] = "2xx"
		if req.URL.Path == "/proofs/incremental" {
			b, _ := json.Marshal(protocol.IncrementalResponse{})
			return resp(req, 200, b, nil), nil
		}
		b, _ := json.Marshal(protocol.MembershipResult{})
		return resp(req, 200, b, nil), nil
	}
}

func clientCallsDriver(args []string) error {
	fs := flag.NewFlagSet("clientcalls", flag.ExitOnError)
	out, seed, tier := commonFlags(fs)
	files := fs.Int("files", 1, "")
	first := fs.Int("fi", 0, "")
	fs.Parse(args)
	thorough := *tier == "thorough"
	stats := map[string]int{}
	hosts := []string{"s0.qed", "s1.qed", "s2.qed"}
	for fi := *first; fi < *first+*files; fi++ {
		rng := rand.New(rand.NewSource(*seed*472882027 + int64(fi)))
		tw, err := trace.Create(filepath.Join(*out, fmt.Sprintf("clientcalls_%02d.ndjson", fi)))
		if err != nil {
			return err
		}
		runs := 25
		if thorough {
			runs = 250
		}
		for run := 0; run < runs; run++ {
			fc := &fakeCluster{tw: tw, hosts: hosts, mode: map[string]string{}, leader: hosts[rng.Intn(3)]}
			for _, h := range hosts {
				fc.mode[h] = "ok"
			}
			http.DefaultClient.Transport = fc
			pref := rng.Intn(5)
			discovery := rng.Intn(3) != 0
			health := rng.Intn(3) == 0
			revive := rng.Intn(2) == 0
			// the client is configured with the current leader as primary, or with a stale one
			prim := fc.leader
			if rng.Intn(4) == 0 {
				prim = hosts[rng.Intn(3)]
			}
			secs := []string{}
			sl := []interface{}{}
			for _, h := range hosts {
				if h != prim {
					secs = append(secs, "http://"+h)
					sl = append(sl, h)
				}
			}
			tw.Emit(trace.Ev{"a": "client", "primary": prim, "secs": sl, "pref": pref, "retries": 0, "discovery": discovery, "health": health,
				"revive": revive, "leader": fc.leader})
			c, err := client.NewHTTPClient(
				client.SetURLs("http://"+prim, secs...),
				client.SetReadPreference(client.ReadPref(pref)),
				client.SetMaxRetries(0),
				client.SetTopologyDiscovery(discovery),
				client.SetHealthChecks(health),
				client.SetHealthCheckTimeout(2*time.Second),
				client.SetHealthCheckInterval(time.Hour),
				client.SetAttemptToReviveEndpoints(revive),
				client.SetHasherFunction(hashing.NewSha256Hasher),
			)
			if err != nil {
				tw.Emit(trace.Ev{"a": "client_error", "msg": err.Error()})
				continue
			}
			tw.Emit(trace.Ev{"a": "ready"})
			ncalls := 6 + rng.Intn(10)
			for k := 0; k < ncalls; k++ {
				if rng.Intn(3) == 0 {
					h := hosts[rng.Intn(3)]
					m := []string{"ok", "down", "e4xx", "e5xx", "down", "ok"}[rng.Intn(6)]
					fc.mu.Lock()
					fc.mode[h] = m
					fc.mu.Unlock()
					tw.Emit(trace.Ev{"a": "fault", "host": h, "mode": m})
				}
				if rng.Intn(5) == 0 {
					fc.mu.Lock()
					fc.leader = hosts[rng.Intn(3)]
					l := fc.leader
					fc.mu.Unlock()
					tw.Emit(trace.Ev{"a": "leader", "host": l})
				}
				kind := []string{"add", "add", "addbulk", "member", "incr", "ping"}[rng.Intn(6)]
				reps := 1
				if kind == "add" && rng.Intn(2) == 0 {
					reps = 3 // three writes in a row with a stable cluster: convergence
				}
				for r := 0; r < reps; r++ {
					fc.mu.Lock()
					fc.inCall = 0
					fc.mu.Unlock()
					tw.Emit(trace.Ev{"a": "call", "kind": kind, "rep": r})
					done := make(chan error, 1)
					t0 := time.Now()
					go func() {
						var err error
						switch kind {
						case "add":
							_, err = c.Add("event")
						case "addbulk":
							_, err = c.AddBulk([]string{"e1", "e2"})
						case "member":
							_, err = c.Membership([]byte("k"), nil)
						case "incr":
							_, err = c.Incremental(0, 1)
						case "ping":
							err = c.Ping()
						}
						done <- err
					}()
					select {
					case err := <-done:
						ev := trace.Ev{"a": "ret", "kind": kind, "err": err != nil, "hang": false, "ms": time.Since(t0).Milliseconds()}
						if err != nil {
							ev["errmsg"] = truncate(err.Error(), 120)
						}
						tw.Emit(ev)
					case <-time.After(8 * time.Second):
						tw.Emit(trace.Ev{"a": "ret", "kind": kind, "err": true, "hang": true, "ms": 8000})
						// the call is stuck in a loop: abandon this client (its goroutine keeps spinning)
						fc.mu.Lock()
						for _, h := range hosts {
							fc.mode[h] = "down"
						}
						fc.mu.Unlock()
						k = ncalls
						r = reps
					}
					stats["calls"]++
				}
			}
			stats["runs"]++
		}
		tw.Close()
		stats["lines"] += tw.Lines
	}
	b, _ := json.Marshal(stats)
	fmt.Println(string(b))
	return nil
}
