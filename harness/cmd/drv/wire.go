package main

// wire driver (C13): identity oracle for the public encodings at magnitudes and shapes the
// TLA+ model cannot hold (TLC integers are 32-bit): position keys up to 2^63-1, all-ones
// digests, snapshots / signed batches (JSON), gossip messages (msgpack), and membership
// answers for versions beyond the current one (verdict before vs after the wire).

import (
	"bytes"
	"encoding/json"
	"flag"
	"fmt"
	"math/rand"
	"path/filepath"
	"reflect"

	"github.com/bbva/qed/balloon"
	"github.com/bbva/qed/balloon/history"
	"github.com/bbva/qed/crypto/hashing"
	"github.com/bbva/qed/gossip"
	"github.com/bbva/qed/protocol"
	"github.com/bbva/qed/storage/bplus"
	"github.com/bbva/qed/util"

	"verif/harness/symhash"
	"verif/harness/trace"
)

func init() { drivers["wire"] = wireDriver }

func wireDriver(args []string) error {
	fs := flag.NewFlagSet("wire", flag.ExitOnError)
	out, seed, tier := commonFlags(fs)
	files := fs.Int("files", 1, "")
	first := fs.Int("fi", 0, "")
	fs.Parse(args)
	thorough := *tier == "thorough"
	stats := map[string]int{}
	for fi := *first; fi < *first+*files; fi++ {
		rng := rand.New(rand.NewSource(*seed*715827883 + int64(fi)))
		tw, err := trace.Create(filepath.Join(*out, fmt.Sprintf("wire_%02d.ndjson", fi)))
		if err != nil {
			return err
		}
		emit := func(kind, detail string, same bool) {
			tw.Emit(trace.Ev{"a": "wire", "kind": kind, "detail": detail, "same": same})
			stats["cases"]++
		}
		n := 300
		if thorough {
			n = 3000
		}
		// --- history audit paths: Serialize -> JSON -> ParseAuditPath with boundary magnitudes
		mags := []uint64{0, 1, 255, 256, 65535, 1 << 31, 1<<32 - 1, 1 << 32, 1<<53 - 1, 1 << 53, 1<<62 + 12345, 1<<63 - 1}
		for i := 0; i < n/3; i++ {
			ap := history.AuditPath{}
			k := 1 + rng.Intn(6)
			for j := 0; j < k; j++ {
				idx := mags[rng.Intn(len(mags))]
				if rng.Intn(3) == 0 {
					idx = uint64(rng.Int63())
				}
				h := uint16(rng.Intn(65))
				if rng.Intn(10) == 0 {
					h = 65535
				}
				var key [10]byte
				copy(key[:8], util.Uint64AsBytes(idx))
				copy(key[8:], util.Uint16AsBytes(h))
				d := make([]byte, 32)
				rng.Read(d)
				if rng.Intn(8) == 0 {
					for x := range d {
						d[x] = 0xff
					}
				}
				ap[key] = d
			}
			raw, _ := json.Marshal(ap.Serialize())
			var back map[string]hashing.Digest
			err := json.Unmarshal(raw, &back)
			parsed := history.ParseAuditPath(back)
			emit("history_audit_path", fmt.Sprintf("%d entries", k), err == nil && reflect.DeepEqual(ap, parsed))
		}
		// --- snapshots, signed snapshots, batches (JSON)
		// every encoding is decoded twice: at once, and again after all later encodings were
		// produced (a sender holds the bytes of one message while it encodes the next ones)
		later := []func(){}
		for i := 0; i < n/3; i++ {
			mk := func() *protocol.Snapshot {
				s := &protocol.Snapshot{Version: mags[rng.Intn(len(mags))]}
				if rng.Intn(4) == 0 {
					s.Version = rng.Uint64()
				}
				for _, f := range []*hashing.Digest{&s.EventDigest, &s.HistoryDigest, &s.HyperDigest} {
					d := make([]byte, []int{0, 1, 32, 32, 32, 64}[rng.Intn(6)])
					rng.Read(d)
					*f = d
				}
				return s
			}
			s := mk()
			raw, _ := s.Encode()
			var b protocol.Snapshot
			err := b.Decode(raw)
			emit("snapshot", "", err == nil && b.Version == s.Version && bytes.Equal(b.EventDigest, s.EventDigest) && bytes.Equal(b.HistoryDigest, s.HistoryDigest) && bytes.Equal(b.HyperDigest, s.HyperDigest))
			batch := &protocol.BatchSnapshots{}
			for j := 0; j < 1+rng.Intn(4); j++ {
				sig := make([]byte, 64)
				rng.Read(sig)
				batch.Snapshots = append(batch.Snapshots, &protocol.SignedSnapshot{Snapshot: mk(), Signature: sig})
			}
			raw, _ = batch.Encode()
			var bb protocol.BatchSnapshots
			err = bb.Decode(raw)
			same := err == nil && len(bb.Snapshots) == len(batch.Snapshots)
			for j := 0; same && j < len(bb.Snapshots); j++ {
				x, y := bb.Snapshots[j], batch.Snapshots[j]
				same = bytes.Equal(x.Signature, y.Signature) && x.Snapshot.Version == y.Snapshot.Version && bytes.Equal(x.Snapshot.HyperDigest, y.Snapshot.HyperDigest) &&
					bytes.Equal(x.Snapshot.HistoryDigest, y.Snapshot.HistoryDigest) && bytes.Equal(x.Snapshot.EventDigest, y.Snapshot.EventDigest)
			}
			emit("signed_batch", "", same)
			// gossip message (msgpack)
			m := &gossip.Message{Kind: gossip.BatchMessageType, TTL: rng.Intn(7) - 1, Payload: raw}
			if rng.Intn(2) == 0 {
				m.From = gossip.NewPeer(fmt.Sprintf("peer-%d", i), "127.0.0.1", uint16(rng.Intn(65536)), "auditor")
			}
			w, _ := m.Encode()
			var mb gossip.Message
			err = mb.Decode(w)
			same = err == nil && mb.Kind == m.Kind && mb.TTL == m.TTL && bytes.Equal(mb.Payload, m.Payload) && (m.From == nil) == (mb.From == nil)
			if same && m.From != nil {
				same = mb.From.Name == m.From.Name && mb.From.Port == m.From.Port && mb.From.Meta.Role == m.From.Meta.Role && mb.From.Addr.Equal(m.From.Addr)
			}
			emit("gossip_message", "", same)
			{
				s0, raw0, batch0, rawb0, m0, w0 := s, append([]byte(nil), nil...), batch, raw, m, w
				raw0, _ = s0.Encode()
				later = append(later, func() {
					var b protocol.Snapshot
					err := b.Decode(raw0)
					emit("snapshot_retained", "", err == nil && b.Version == s0.Version && bytes.Equal(b.EventDigest, s0.EventDigest) && bytes.Equal(b.HistoryDigest, s0.HistoryDigest) && bytes.Equal(b.HyperDigest, s0.HyperDigest))
					var bb protocol.BatchSnapshots
					err = bb.Decode(rawb0)
					same := err == nil && len(bb.Snapshots) == len(batch0.Snapshots)
					for j := 0; same && j < len(bb.Snapshots); j++ {
						x, y := bb.Snapshots[j], batch0.Snapshots[j]
						same = bytes.Equal(x.Signature, y.Signature) && x.Snapshot.Version == y.Snapshot.Version && bytes.Equal(x.Snapshot.HyperDigest, y.Snapshot.HyperDigest) &&
							bytes.Equal(x.Snapshot.HistoryDigest, y.Snapshot.HistoryDigest) && bytes.Equal(x.Snapshot.EventDigest, y.Snapshot.EventDigest)
					}
					emit("signed_batch_retained", "", same)
					var mb gossip.Message
					err = mb.Decode(w0)
					same = err == nil && mb.Kind == m0.Kind && mb.TTL == m0.TTL && bytes.Equal(mb.Payload, m0.Payload) && (m0.From == nil) == (mb.From == nil)
					if same && m0.From != nil {
						same = mb.From.Name == m0.From.Name && mb.From.Port == m0.From.Port && mb.From.Meta.Role == m0.From.Meta.Role && mb.From.Addr.Equal(m0.From.Addr)
					}
					emit("gossip_message_retained", "", same)
				})
			}
		}
		for _, f := range later {
			f()
		}
		// --- membership answers incl. versions beyond the current one: verdict before / after the wire
		st := bplus.NewBPlusTreeStore()
		b, _ := balloon.NewBalloon(st, symhash.New)
		var snaps []*balloon.Snapshot
		var digs [][]byte
		for i := 0; i < 9; i++ {
			d := make([]byte, 32)
			rng.Read(d)
			s, muts, _ := b.Add(d)
			st.Mutate(muts, nil)
			snaps = append(snaps, s)
			digs = append(digs, d)
		}
		cur := uint64(len(snaps) - 1)
		for i := range digs {
			for _, q := range []uint64{uint64(i), cur, cur + 1, cur + 7, 1 << 20} {
				p, err := b.QueryDigestMembershipConsistency(digs[i], q)
				if err != nil {
					continue
				}
				qv := q
				if qv > cur {
					qv = cur
				}
				snap := &balloon.Snapshot{EventDigest: digs[i], HistoryDigest: snaps[qv].HistoryDigest, HyperDigest: snaps[cur].HyperDigest, Version: qv}
				var v1, v2 bool
				guard(func() { v1 = p.DigestVerify(digs[i], snap) })
				raw, _ := json.Marshal(protocol.ToMembershipResult(nil, p))
				var back protocol.MembershipResult
				json.Unmarshal(raw, &back)
				guard(func() { v2 = protocol.ToBalloonProof(&back, symhash.New).DigestVerify(digs[i], snap) })
				emit("membership_verdict", fmt.Sprintf("event %d query %d current %d: in-process %v, decoded %v", i, q, cur, v1, v2), v1 == v2)
			}
		}
		b.Close()
		tw.Close()
		stats["lines"] += tw.Lines
	}
	bb, _ := json.Marshal(stats)
	fmt.Println(string(bb))
	return nil
}
