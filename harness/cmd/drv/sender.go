package main

// sender driver (C17): the REAL server.Sender (its concurrent batchers, real ed25519 signer) on the
// outgoing bus of a real, un-started gossip agent with a recording subscriber. Arrival patterns:
// bursts around k*BatchSize, gaps around the flush interval, trickles. Every produced snapshot and
// every published batch is logged; signatures are verified with the real Verify, and single-field /
// single-bit modifications of signed snapshots must stop verifying.

import (
	"encoding/json"
	"flag"
	"fmt"
	"github.com/bbva/qed/crypto/hashing"
	"math/rand"
	"path/filepath"
	"sync"
	"time"

	"github.com/bbva/qed/crypto/sign"
	"github.com/bbva/qed/gossip"
	"github.com/bbva/qed/protocol"
	"github.com/bbva/qed/server"

	"verif/harness/trace"
)

func init() { drivers["sender"] = senderDriver }

type recorder struct {
	mu  sync.Mutex
	got []*gossip.Message
}

func (r *recorder) Subscribe(id int, ch <-chan *gossip.Message) {
	go func() {
		for m := range ch {
			r.mu.Lock()
			r.got = append(r.got, m)
			r.mu.Unlock()
		}
	}()
}

func sigMessage(s *protocol.Snapshot) []byte { return []byte(fmt.Sprintf("%v", s)) }

func senderDriver(args []string) error {
	fs := flag.NewFlagSet("sender", flag.ExitOnError)
	out, seed, tier := commonFlags(fs)
	files := fs.Int("files", 1, "")
	first := fs.Int("fi", 0, "")
	fs.Parse(args)
	thorough := *tier == "thorough"
	stats := map[string]int{}
	for fi := *first; fi < *first+*files; fi++ {
		rng := rand.New(rand.NewSource(*seed*982451653 + int64(fi)))
		tw, err := trace.Create(filepath.Join(*out, fmt.Sprintf("sender_%02d.ndjson", fi)))
		if err != nil {
			return err
		}
		runs := 6
		if thorough {
			runs = 40
		}
		for run := 0; run < runs; run++ {
			agent, err := gossip.NewAgent(gossip.SetNodeName(fmt.Sprintf("sender-%d-%d", fi, run)), gossip.SetRole("qed"), gossip.SetBindAddr("127.0.0.1:0"))
			if err != nil {
				return err
			}
			rec := &recorder{}
			agent.Out.Subscribe(gossip.BatchMessageType, rec, 100000)
			signer := sign.NewEd25519Signer()
			batchSize := 1 + rng.Intn(5)
			nsenders := 1 + rng.Intn(4)
			ttl := 1 + rng.Intn(3)
			s := server.NewSender(agent, signer, batchSize, ttl, nsenders)
			interval := time.Duration(15+rng.Intn(20)) * time.Millisecond
			s.Interval = interval
			ch := make(chan *protocol.Snapshot, 100000)
			tw.Emit(trace.Ev{"a": "reset", "batch": batchSize, "senders": nsenders, "ttl": ttl, "interval_ms": interval.Milliseconds()})
			s.Start(ch)
			id := 0
			produce := func(n int) {
				for i := 0; i < n; i++ {
					id++
					// digests of the real size (32 bytes), distinct per snapshot
					dg := func(tag byte) []byte {
						d := make([]byte, 32)
						rng.Read(d)
						d[0], d[1], d[2] = tag, byte(id), byte(id>>8)
						return d
					}
					snap := &protocol.Snapshot{EventDigest: dg(1), HistoryDigest: dg(2), HyperDigest: dg(3), Version: uint64(id)}
					tw.Emit(trace.Ev{"a": "produce", "id": id})
					ch <- snap
				}
			}
			phases := 4 + rng.Intn(6)
			for p := 0; p < phases; p++ {
				switch rng.Intn(5) {
				case 0: // burst around multiples of the batch size
					produce(batchSize*(1+rng.Intn(4)) + rng.Intn(3) - 1)
				case 1: // single
					produce(1)
				case 2: // gap shorter / longer than the interval
					time.Sleep(time.Duration(rng.Int63n(int64(2 * interval))))
				case 3: // trickle with sub-interval gaps
					for i := 0; i < 2+rng.Intn(5); i++ {
						produce(1)
						time.Sleep(time.Duration(rng.Int63n(int64(interval))))
					}
				default:
					produce(rng.Intn(3 * batchSize * nsenders))
				}
			}
			// quiesce: with nothing arriving every batcher must flush within the interval
			deadline := time.Now().Add(40*interval + 2*time.Second)
			for time.Now().Before(deadline) {
				rec.mu.Lock()
				n := 0
				for _, m := range rec.got {
					var b protocol.BatchSnapshots
					if b.Decode(m.Payload) == nil {
						n += len(b.Snapshots)
					}
				}
				rec.mu.Unlock()
				if n >= id && len(ch) == 0 {
					break
				}
				time.Sleep(5 * time.Millisecond)
			}
			time.Sleep(3 * interval)
			rec.mu.Lock()
			msgs := append([]*gossip.Message(nil), rec.got...)
			rec.mu.Unlock()
			tampers := 0
			for _, m := range msgs {
				var b protocol.BatchSnapshots
				derr := b.Decode(m.Payload)
				ids := []interface{}{}
				sigok := true
				tamperAccepted := []interface{}{}
				for _, ss := range b.Snapshots {
					if ss == nil || ss.Snapshot == nil {
						ids = append(ids, -1)
						sigok = false
						continue
					}
					ids = append(ids, ss.Snapshot.Version)
					ok, _ := signer.Verify(sigMessage(ss.Snapshot), ss.Signature)
					sigok = sigok && ok
					if tampers < 6 && rng.Intn(4) == 0 {
						tampers++
						// every single-field modification and every single signature bit
						mods := []func(*protocol.Snapshot){
							func(x *protocol.Snapshot) { x.Version++ },
							func(x *protocol.Snapshot) { x.EventDigest = append([]byte{}, x.EventDigest...); x.EventDigest[0] ^= 1 },
							func(x *protocol.Snapshot) {
								x.HistoryDigest = append([]byte{}, x.HistoryDigest...)
								x.HistoryDigest[0] ^= 0x80
							},
							func(x *protocol.Snapshot) {
								x.HyperDigest = append([]byte{}, x.HyperDigest...)
								x.HyperDigest[len(x.HyperDigest)-1] ^= 1
							},
							func(x *protocol.Snapshot) { x.EventDigest, x.HistoryDigest = x.HistoryDigest, x.EventDigest },
							func(x *protocol.Snapshot) { x.EventDigest = append(append([]byte{}, x.EventDigest...), 0) },
						}
						// one bit at every byte offset of every digest, and truncations
						for _, off := range []int{1, 7, 8, 9, 15, 16, 24, 30, 31} {
							off := off
							for f := 0; f < 3; f++ {
								f := f
								mods = append(mods, func(x *protocol.Snapshot) {
									p := []*hashing.Digest{&x.EventDigest, &x.HistoryDigest, &x.HyperDigest}[f]
									if off < len(*p) {
										c := append(hashing.Digest{}, (*p)...)
										c[off] ^= 1 << uint(rng.Intn(8))
										*p = c
									} else {
										x.Version++
									}
								})
							}
						}
						for f := 0; f < 3; f++ {
							f := f
							mods = append(mods, func(x *protocol.Snapshot) {
								p := []*hashing.Digest{&x.EventDigest, &x.HistoryDigest, &x.HyperDigest}[f]
								if len(*p) > 8 {
									*p = append(hashing.Digest{}, (*p)[:8+rng.Intn(len(*p)-8)]...)
								} else {
									x.Version++
								}
							})
						}
						for mi, mod := range mods {
							cp := *ss.Snapshot
							mod(&cp)
							if ok, _ := signer.Verify(sigMessage(&cp), ss.Signature); ok {
								tamperAccepted = append(tamperAccepted, fmt.Sprintf("field-mod-%d", mi))
							}
						}
						for bit := 0; bit < len(ss.Signature)*8; bit++ {
							sg := append([]byte{}, ss.Signature...)
							sg[bit/8] ^= 1 << uint(bit%8)
							if ok, _ := signer.Verify(sigMessage(ss.Snapshot), sg); ok {
								tamperAccepted = append(tamperAccepted, fmt.Sprintf("sig-bit-%d", bit))
							}
						}
						other := sign.NewEd25519Signer()
						if ok, _ := other.Verify(sigMessage(ss.Snapshot), ss.Signature); ok {
							tamperAccepted = append(tamperAccepted, "other-key")
						}
					}
				}
				tw.Emit(trace.Ev{"a": "publish", "ids": ids, "kind": int(m.Kind), "ttl": m.TTL, "decode_err": derr != nil, "sigok": sigok, "tamper_accepted": tamperAccepted})
			}
			tw.Emit(trace.Ev{"a": "quiesce", "produced": id, "inchan": len(ch)})
			s.Stop()
			stats["runs"]++
			stats["snapshots"] += id
			stats["tampered"] += tampers
		}
		tw.Close()
		stats["lines"] += tw.Lines
	}
	b, _ := json.Marshal(stats)
	fmt.Println(string(b))
	return nil
}
