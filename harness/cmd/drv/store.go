package main

// store driver (C14): random operation sequences on both storage back-ends; every reply is
// logged and compared by TLC with the sorted-map model of Store.tla.

import (
	"encoding/json"
	"flag"
	"fmt"
	"io/ioutil"
	"math/rand"
	"os"
	"path/filepath"
	"time"

	"github.com/bbva/qed/storage"
	"github.com/bbva/qed/storage/bplus"
	"github.com/bbva/qed/storage/rocks"

	"verif/harness/trace"
)

func init() { drivers["store"] = storeDriver }

var tableNames = map[storage.Table]string{
	storage.DefaultTable: "default", storage.HyperTable: "hyper", storage.HyperCacheTable: "hypercache",
	storage.HistoryTable: "history", storage.FSMStateTable: "fsm",
}
var allTables = []storage.Table{storage.DefaultTable, storage.HyperTable, storage.HyperCacheTable, storage.HistoryTable, storage.FSMStateTable}

func ints(b []byte) []int {
	o := make([]int, len(b))
	for i, x := range b {
		o[i] = int(x)
	}
	return o
}

func keyPool(rng *rand.Rand) [][]byte {
	rep := func(b byte, n int) []byte {
		o := make([]byte, n)
		for i := range o {
			o[i] = b
		}
		return o
	}
	p := [][]byte{
		{}, {0}, {0, 0}, {1}, {2}, {3}, {4}, {0xab}, {0xff}, rep(0xff, 2), rep(0xff, 9), rep(0xff, 10), rep(0xff, 11), rep(0xff, 34),
		{0, 0xff}, {1, 0}, {2, 0, 0}, {3, 0xab},
	}
	// history-like (index || height) and hyper-like (height || index) keys
	for i := 0; i < 4; i++ {
		k := make([]byte, 10)
		k[7] = byte(rng.Intn(3))
		k[9] = byte(rng.Intn(3))
		p = append(p, k)
		h := make([]byte, 34)
		h[1] = byte(rng.Intn(256))
		h[2] = byte(rng.Intn(256))
		p = append(p, h)
	}
	for i := 0; i < 4; i++ {
		k := make([]byte, 1+rng.Intn(5))
		rng.Read(k)
		p = append(p, k)
	}
	return p
}

func kvList(r []storage.KVPair) []interface{} {
	o := make([]interface{}, len(r))
	for i, kv := range r {
		o[i] = trace.Ev{"k": ints(kv.Key), "v": hx(kv.Value)}
	}
	return o
}

func storeDriver(args []string) error {
	fs := flag.NewFlagSet("store", flag.ExitOnError)
	out, seed, tier := commonFlags(fs)
	files := fs.Int("files", 1, "")
	first := fs.Int("fi", 0, "")
	fs.Parse(args)
	thorough := *tier == "thorough"
	tmp, err := ioutil.TempDir("", "drvstore")
	if err != nil {
		return err
	}
	defer os.RemoveAll(tmp)
	stats := map[string]int{}
	for fi := *first; fi < *first+*files; fi++ {
		rng := rand.New(rand.NewSource(*seed*104729 + int64(fi)))
		tw, err := trace.Create(filepath.Join(*out, fmt.Sprintf("store_%02d.ndjson", fi)))
		if err != nil {
			return err
		}
		runs := 12
		if thorough {
			runs = 120
		}
		for run := 0; run < runs; run++ {
			kind := "bplus"
			if run%2 == 1 {
				kind = "rocks"
			}
			dir, _ := ioutil.TempDir(tmp, "st")
			var st storage.Store
			open := func() error {
				var err error
				if kind == "bplus" {
					st = bplus.NewBPlusTreeStore()
				} else {
					st, err = rocks.NewRocksDBStore(dir, 0)
				}
				return err
			}
			if err := open(); err != nil {
				return err
			}
			tw.Emit(trace.Ev{"a": "reset", "kind": kind})
			pool := keyPool(rng)
			// which tables this run populates: sometimes only one, sometimes all
			tabs := allTables
			if rng.Intn(3) == 0 {
				tabs = []storage.Table{allTables[rng.Intn(len(allTables))]}
			}
			nops := 25 + rng.Intn(40)
			bigAt := rng.Intn(nops)
			for op := 0; op < nops; op++ {
				if op == bigAt {
					// a batch of more than a thousand mutations, written twice (insert, overwrite) while
					// another goroutine keeps reading the whole key range with one consistent range read:
					// every read must see the batch entirely or not at all
					bt := allTables[rng.Intn(len(allTables))]
					n := 1025 + rng.Intn(700)
					mk := func(i int) []byte { return []byte{0xB1, byte(i >> 16), byte(i >> 8), byte(i)} }
					for gen := byte(1); gen <= 2; gen++ {
						muts := []*storage.Mutation{}
						batch := []interface{}{}
						val := []byte{gen, byte(run), byte(fi)}
						for i := 0; i < n; i++ {
							muts = append(muts, storage.NewMutation(bt, mk(i), val))
							batch = append(batch, trace.Ev{"t": tableNames[bt], "k": ints(mk(i)), "v": hx(val)})
						}
						stop := make(chan struct{})
						obsCh := make(chan []interface{}, 1)
						go func() {
							seen := map[[3]int]bool{}
							obs := []interface{}{}
							if kind != "rocks" {
								// the B+ tree store has no synchronisation at all (single-goroutine test store):
								// no concurrent reader there
								<-stop
								obsCh <- obs
								return
							}
							for {
								select {
								case <-stop:
									obsCh <- obs
									return
								default:
								}
								r, err := st.GetRange(bt, mk(0), mk(n-1))
								if err != nil {
									continue
								}
								c := [3]int{}
								for _, kv := range r {
									switch {
									case len(kv.Value) == 3 && kv.Value[0] == gen:
										c[0]++
									case len(kv.Value) == 3 && kv.Value[0] == gen-1:
										c[1]++
									default:
										c[2]++
									}
								}
								if !seen[c] {
									seen[c] = true
									obs = append(obs, trace.Ev{"new": c[0], "old": c[1], "other": c[2]})
								}
							}
						}()
						time.Sleep(2 * time.Millisecond)
						err := st.Mutate(muts, nil)
						time.Sleep(2 * time.Millisecond)
						close(stop)
						obs := <-obsCh
						tw.Emit(trace.Ev{"a": "mutate", "batch": batch, "err": err != nil})
						tw.Emit(trace.Ev{"a": "observe", "t": tableNames[bt], "n": n, "gen": int(gen), "obs": obs})
					}
				}
				t := allTables[rng.Intn(len(allTables))]
				tn := tableNames[t]
				key := pool[rng.Intn(len(pool))]
				ev := trace.Ev{}
				pan, msg := guard(func() {
					switch c := rng.Intn(10); {
					case c < 4:
						n := 1 + rng.Intn(5)
						muts := []*storage.Mutation{}
						batch := []interface{}{}
						for i := 0; i < n; i++ {
							mt := tabs[rng.Intn(len(tabs))]
							k := pool[rng.Intn(len(pool))]
							v := make([]byte, 1+rng.Intn(4))
							rng.Read(v)
							muts = append(muts, storage.NewMutation(mt, append([]byte(nil), k...), v))
							batch = append(batch, trace.Ev{"t": tableNames[mt], "k": ints(k), "v": hx(v)})
						}
						ev = trace.Ev{"a": "mutate", "batch": batch}
						err := st.Mutate(muts, nil)
						ev["err"] = err != nil
					case c < 6:
						ev = trace.Ev{"a": "get", "t": tn, "k": ints(key)}
						kv, err := st.Get(t, key)
						ev["found"] = err == nil
						if err == nil {
							ev["v"] = hx(kv.Value)
						} else if err != storage.ErrKeyNotFound {
							ev["errmsg"] = err.Error()
						}
					case c < 7:
						lo, hi := pool[rng.Intn(len(pool))], pool[rng.Intn(len(pool))]
						ev = trace.Ev{"a": "range", "t": tn, "lo": ints(lo), "hi": ints(hi)}
						r, err := st.GetRange(t, lo, hi)
						if err != nil {
							ev["errmsg"] = err.Error()
						}
						ev["res"] = kvList(r)
					case c < 9:
						page := 1 + rng.Intn(7)
						if rng.Intn(4) == 0 {
							page = 1000
						}
						ev = trace.Ev{"a": "scan", "t": tn, "page": page}
						rd := st.GetAll(t)
						pages := []interface{}{}
						// the caller either hands a fresh page to every Read, or (as the hyper cache
						// warm-up does) the same page again while keeping the pairs it was given
						// before; either way what it was given must stay what it was
						reuse := rng.Intn(2) == 0
						ev["reuse"] = reuse
						held := [][]storage.KVPair{}
						buf := make([]*storage.KVPair, page)
						for guardN := 0; guardN < 10000; guardN++ {
							if !reuse {
								buf = make([]*storage.KVPair, page)
							}
							n, err := rd.Read(buf)
							if n == 0 || err != nil {
								break
							}
							pg := make([]storage.KVPair, 0, n)
							for i := 0; i < n; i++ {
								pg = append(pg, *buf[i])
							}
							held = append(held, pg)
						}
						for _, pg := range held {
							pages = append(pages, kvList(pg))
						}
						rd.Close()
						ev["pages"] = pages
					default:
						ev = trace.Ev{"a": "last", "t": tn}
						kv, err := st.GetLast(t)
						ev["found"] = err == nil
						if err == nil {
							ev["k"] = ints(kv.Key)
							ev["v"] = hx(kv.Value)
						}
					}
				})
				if pan {
					ev["panic"] = truncate(msg, 120)
				}
				tw.Emit(ev)
				if kind == "rocks" && rng.Intn(15) == 0 {
					e1 := st.Close()
					e2 := open()
					tw.Emit(trace.Ev{"a": "reopen", "err": e1 != nil || e2 != nil})
					if e2 != nil {
						return e2
					}
				}
			}
			st.Close()
			os.RemoveAll(dir)
			stats["runs"]++
		}
		tw.Close()
		stats["lines"] += tw.Lines
	}
	b, _ := json.Marshal(stats)
	fmt.Println(string(b))
	return nil
}
