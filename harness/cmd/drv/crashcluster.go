package main

// crashcluster driver (C05, C06, C07): a 3-node cluster of CHILD PROCESSES (real raft over loopback).
// The leader is SIGKILLed immediately before / after the store write of the i-th insertion; the
// survivors elect a new leader, the workload continues, the dead node is restarted and catches
// up; every node is then dumped and queried. All events are validated by Trace_Cluster.tla.

import (
	"encoding/json"
	"flag"
	"fmt"
	"io/ioutil"
	"math/rand"
	"os"
	"os/exec"
	"path/filepath"
	"strings"
	"sync"
	"time"

	"bufio"

	"github.com/bbva/qed/balloon"
	"github.com/bbva/qed/crypto/hashing"
	"github.com/bbva/qed/protocol"
	"github.com/bbva/qed/storage/bplus"

	"verif/harness/qcluster"
	"verif/harness/symhash"
	"verif/harness/trace"
)

func init() { drivers["crashcluster"] = crashClusterDriver }

type mchild struct {
	id    int
	dir   string
	addr  string
	cmd   *exec.Cmd
	in    *bufio.Writer
	resp  chan map[string]interface{}
	alive bool
	mu    sync.Mutex
}

type mcluster struct {
	tw    *trace.Writer
	enc   *symhash.Encoder
	rng   *rand.Rand
	kids  []*mchild
	refMu sync.Mutex
	ref   *balloon.Balloon
	refSt *bplus.BPlusTreeStore
	refSn []*balloon.Snapshot
	log   [][]byte
	q     int
}

// refFeed keeps an in-process, never-crashed balloon in step with the committed log, which is
// learnt from the store writes of the children (first mention of each version).
func (m *mcluster) refFeed(ev map[string]interface{}) {
	first, _ := ev["first"].(float64)
	leaves, _ := ev["leaves"].([]interface{})
	m.refMu.Lock()
	defer m.refMu.Unlock()
	if int(first) != len(m.log) || len(leaves) == 0 {
		return
	}
	ds := []hashing.Digest{}
	for _, l := range leaves {
		d := unhex(l)
		ds = append(ds, d)
		m.log = append(m.log, d)
	}
	sn, muts, _ := m.ref.AddBulk(ds)
	m.refSt.Mutate(muts, nil)
	m.refSn = append(m.refSn, sn...)
}

func (m *mcluster) spawn(c *mchild, seeds []string) error {
	exe, _ := os.Executable()
	args := []string{"node", "-dir", c.dir, "-id", fmt.Sprint(c.id), "-addr", c.addr}
	if len(seeds) > 0 {
		args = append(args, "-seeds", strings.Join(seeds, ","))
	}
	cmd := exec.Command(exe, args...)
	cmd.Env = append(os.Environ(), "VERIF_CLUSTER_MEMBER=1")
	cmd.Stderr = ioutil.Discard
	in, err := cmd.StdinPipe()
	if err != nil {
		return err
	}
	so, err := cmd.StdoutPipe()
	if err != nil {
		return err
	}
	m.tw.Emit(trace.Ev{"a": "boot", "n": c.id})
	if err := cmd.Start(); err != nil {
		return err
	}
	c.cmd, c.in, c.resp, c.alive = cmd, bufio.NewWriter(in), make(chan map[string]interface{}, 64), true
	go func() {
		rd := bufio.NewReaderSize(so, 1<<20)
		for {
			line, err := rd.ReadBytes('\n')
			if len(line) > 0 {
				var mm map[string]interface{}
				if json.Unmarshal(line, &mm) == nil {
					if ev, ok := mm["ev"].(map[string]interface{}); ok {
						if ev["a"] == "pbegin" {
							m.refFeed(ev)
						}
						m.tw.Emit(ev)
					} else if _, ok := mm["r"]; ok {
						c.resp <- mm
					}
				}
			}
			if err != nil {
				c.mu.Lock()
				c.alive = false
				c.mu.Unlock()
				cmd.Wait()
				close(c.resp)
				return
			}
		}
	}()
	r, ok := c.call(nil, 30*time.Second)
	if !ok || r["err"] == true {
		m.tw.Emit(trace.Ev{"a": "start", "n": c.id, "err": true})
		return fmt.Errorf("node %d did not start", c.id)
	}
	m.tw.Emit(trace.Ev{"a": "start", "n": c.id, "err": false, "nocheck": true, "idx": r["idx"], "bver": r["bver"], "version": r["version"]})
	return nil
}

// call sends a command (nil: just wait for the next response) and waits for the response.
func (c *mchild) call(cmd *nodeCmd, d time.Duration) (map[string]interface{}, bool) {
	if cmd != nil {
		b, _ := json.Marshal(cmd)
		c.in.Write(append(b, '\n'))
		c.in.Flush()
	}
	select {
	case r, ok := <-c.resp:
		return r, ok && r != nil
	case <-time.After(d):
		return nil, false
	}
}

func (c *mchild) isAlive() bool { c.mu.Lock(); defer c.mu.Unlock(); return c.alive }

func (m *mcluster) leader(d time.Duration) *mchild {
	deadline := time.Now().Add(d)
	for time.Now().Before(deadline) {
		for _, c := range m.kids {
			if !c.isAlive() {
				continue
			}
			if r, ok := c.call(&nodeCmd{Op: "state"}, 5*time.Second); ok && r["leader"] == true {
				return c
			}
		}
		time.Sleep(50 * time.Millisecond)
	}
	return nil
}

func (m *mcluster) quiesce() bool {
	ok := qcluster.WaitFor(25*time.Second, func() bool {
		var idxs []float64
		for _, c := range m.kids {
			if c.isAlive() {
				r, ok := c.call(&nodeCmd{Op: "state"}, 5*time.Second)
				if !ok {
					return false
				}
				idxs = append(idxs, r["idx"].(float64))
			}
		}
		for _, x := range idxs {
			if x != idxs[0] {
				return false
			}
		}
		return len(idxs) > 0
	})
	m.tw.Emit(trace.Ev{"a": "quiesce", "ok": ok})
	return ok
}

func (m *mcluster) add(bulk [][]byte, killSide string) (killed *mchild) {
	l := m.leader(20 * time.Second)
	if l == nil {
		m.tw.Emit(trace.Ev{"a": "noleader"})
		return nil
	}
	hb := []string{}
	bl := []interface{}{}
	for _, d := range bulk {
		hb = append(hb, hx(d))
		bl = append(bl, hx(d))
	}
	if killSide != "" {
		l.call(&nodeCmd{Op: "kill", When: killSide, K: 1}, 5*time.Second)
	}
	r, ok := l.call(&nodeCmd{Op: "add", Bulk: hb, Single: len(hb) == 1 && m.rng.Intn(2) == 0}, 30*time.Second)
	ev := trace.Ev{"a": "ack", "n": l.id, "bulk": bl, "err": !ok || r["err"] == true}
	sl := []interface{}{}
	if ok {
		if snaps, ok2 := r["snaps"].([]interface{}); ok2 {
			for _, x := range snaps {
				s := x.(map[string]interface{})
				sl = append(sl, trace.Ev{"v": s["v"], "e": s["e"], "hist": m.enc.Enc(unhex(s["hist"])), "hyper": m.enc.Enc(unhex(s["hyper"]))})
			}
		}
	}
	ev["snaps"] = sl
	m.tw.Emit(ev)
	if !ok && killSide != "" {
		m.tw.Emit(trace.Ev{"a": "kill", "n": l.id, "side": killSide})
		return l
	}
	return nil
}

func (m *mcluster) pathTerms(p map[string]hashing.Digest) trace.Ev {
	o := trace.Ev{}
	for k, v := range p {
		o[k] = m.enc.Enc(v)
	}
	return o
}

func (m *mcluster) checkAll() {
	m.quiesce()
	m.refMu.Lock()
	n := uint64(len(m.log))
	logc := append([][]byte(nil), m.log...)
	m.refMu.Unlock()
	for _, c := range m.kids {
		if !c.isAlive() {
			continue
		}
		if r, ok := c.call(&nodeCmd{Op: "dump"}, 20*time.Second); ok {
			m.tw.Emit(trace.Ev{"a": "dump", "n": c.id, "idx": r["idx"], "bver": r["bver"], "version": r["version"], "digest": r["digest"], "counts": r["counts"]})
		}
		for i := uint64(0); i < n; i++ {
			q := i + uint64(m.rng.Int63n(int64(n-i)))
			latest := m.rng.Intn(2) == 0
			if latest {
				q = n - 1
			}
			r, ok := c.call(&nodeCmd{Op: "member", D: hx(logc[i]), Q: q, Latest: latest}, 20*time.Second)
			m.q++
			ev := trace.Ev{"a": "nmember", "n": c.id, "d": hx(logc[i]), "q": q, "latest": latest}
			if !ok {
				ev["err"], ev["panic"] = true, "node process died while answering a query"
				m.tw.Emit(ev)
				break
			}
			if r["err"] == true {
				ev["err"] = true
				if r["panic"] == true {
					ev["panic"] = truncate(fmt.Sprint(r["msg"]), 160)
				}
				m.tw.Emit(ev)
				continue
			}
			raw, _ := json.Marshal(r["result"])
			var back protocol.MembershipResult
			json.Unmarshal(raw, &back)
			ev["err"] = false
			ev["exists"], ev["actual"], ev["query"], ev["current"], ev["key"] = back.Exists, back.ActualVersion, back.QueryVersion, back.CurrentVersion, hx(back.KeyDigest)
			ev["wire_fields"] = true
			ev["hyper"] = m.pathTerms(back.Hyper)
			ev["history"] = m.pathTerms(back.History)
			cur, qv := back.CurrentVersion, back.QueryVersion
			if qv > cur {
				qv = cur
			}
			m.refMu.Lock()
			if cur < uint64(len(m.refSn)) {
				snap := &balloon.Snapshot{EventDigest: logc[i], HistoryDigest: m.refSn[qv].HistoryDigest, HyperDigest: m.refSn[cur].HyperDigest, Version: qv}
				var v bool
				guard(func() { v = protocol.ToBalloonProof(&back, symhash.New).DigestVerify(logc[i], snap) })
				ev["v_wire"], ev["v_local"] = v, v
			}
			m.refMu.Unlock()
			m.tw.Emit(ev)
		}
	}
}

func crashClusterDriver(args []string) error {
	fs := flag.NewFlagSet("crashcluster", flag.ExitOnError)
	out, seed, tier := commonFlags(fs)
	files := fs.Int("files", 1, "")
	first := fs.Int("fi", 0, "")
	fs.Parse(args)
	thorough := *tier == "thorough"
	tmp, err := ioutil.TempDir("", "drvcc")
	if err != nil {
		return err
	}
	defer os.RemoveAll(tmp)
	stats := map[string]int{}
	for fi := *first; fi < *first+*files; fi++ {
		rng := rand.New(rand.NewSource(*seed*86028157 + int64(fi)))
		tw, err := trace.Create(filepath.Join(*out, fmt.Sprintf("crashcluster_%02d.ndjson", fi)))
		if err != nil {
			return err
		}
		dw, err := trace.Create(filepath.Join(*out, fmt.Sprintf("crashcluster_%02d.defs.ndjson", fi)))
		if err != nil {
			return err
		}
		enc := symhash.NewEncoder(symhash.Global, func(def symhash.Term) { dw.Emit(def) })
		u := makeUniverse(rng, 14+30)
		keys := trace.Ev{}
		for _, k := range u {
			keys[hx(k)] = bitsOf(k)
		}
		tw.Emit(trace.Ev{"a": "universe", "keys": keys})
		runs := 1
		if thorough {
			runs = 3
		}
		for run := 0; run < runs; run++ {
			dir, _ := ioutil.TempDir(tmp, "cc")
			st := bplus.NewBPlusTreeStore()
			ref, _ := balloon.NewBalloon(st, symhash.New)
			m := &mcluster{tw: tw, enc: enc, rng: rng, ref: ref, refSt: st}
			tw.Emit(trace.Ev{"a": "reset", "nodes": 3, "scenario": "leader killed mid-insertion"})
			for id := 1; id <= 3; id++ {
				m.kids = append(m.kids, &mchild{id: id, dir: filepath.Join(dir, fmt.Sprintf("n%d", id)), addr: qcluster.FreeAddr()})
			}
			var serr error
			if serr = m.spawn(m.kids[0], nil); serr == nil {
				if m.leader(20*time.Second) == nil {
					serr = fmt.Errorf("no leader after bootstrap")
				}
			}
			for id := 2; id <= 3 && serr == nil; id++ {
				serr = m.spawn(m.kids[id-1], []string{m.kids[0].addr})
			}
			if serr == nil {
				qcluster.WaitFor(15*time.Second, func() bool {
					r, ok := m.kids[0].call(&nodeCmd{Op: "state"}, 5*time.Second)
					return ok && r["members"] == float64(3)
				})
				perm := rng.Perm(len(u))
				pi := 0
				next := func() [][]byte {
					ln := 1 + rng.Intn(3)
					b := [][]byte{}
					for x := 0; x < ln; x++ {
						b = append(b, u[perm[pi%len(perm)]])
						pi++
					}
					return b
				}
				k := 4 + rng.Intn(3)
				at := rng.Intn(k)
				side := []string{"before", "after"}[(fi+run)%2]
				var dead *mchild
				for j := 0; j < k; j++ {
					ks := ""
					if j == at {
						ks = side
					}
					if d := m.add(next(), ks); d != nil {
						dead = d
					}
					if j == at+1+rng.Intn(2) && dead != nil {
						// the killed node comes back on its own directories and catches up by log replay
						if err := m.spawn(dead, nil); err != nil {
							break
						}
						dead = nil
					}
				}
				if dead != nil {
					m.spawn(dead, nil)
				}
				m.add(next(), "")
				m.checkAll()
			} else {
				tw.Emit(trace.Ev{"a": "scenario_error", "msg": truncate(serr.Error(), 200)})
			}
			for _, c := range m.kids {
				if c.isAlive() {
					c.call(&nodeCmd{Op: "stop"}, 20*time.Second)
					tw.Emit(trace.Ev{"a": "bstop", "n": c.id})
				}
				if c.cmd != nil && c.cmd.Process != nil {
					c.cmd.Process.Kill()
				}
			}
			ref.Close()
			os.RemoveAll(dir)
			stats["runs"]++
			stats["queries"] += m.q
		}
		time.Sleep(100 * time.Millisecond)
		tw.Close()
		if dw.Lines == 0 {
			dw.Emit(trace.Ev{"h": []interface{}{}})
		}
		dw.Close()
		stats["lines"] += tw.Lines
	}
	b, _ := json.Marshal(stats)
	fmt.Println(string(b))
	return nil
}
