package main

// gossip driver (C18): REAL gossip agents (memberlist over loopback) with the real BatchProcessor,
// a recording task manager and recording In-bus subscribers. Batches are injected on an agent's
// outgoing bus with every initial TTL of interest (incl. 0 and negative), re-published and
// re-delivered in storms; every message an agent receives from the network and every task it
// creates is logged for Trace_Gossip.tla.
// gossiptopo: concurrent Update/Delete/Get/Each on the real Topology from many goroutines.

import (
	"context"
	"crypto/sha256"
	"encoding/json"
	"flag"
	"fmt"
	"math/rand"
	"path/filepath"
	"sync"
	"sync/atomic"
	"time"

	"github.com/bbva/qed/gossip"
	"github.com/bbva/qed/protocol"
	"github.com/prometheus/client_golang/prometheus"

	"verif/harness/qcluster"
	"verif/harness/trace"
)

func init() {
	drivers["gossip"] = gossipDriver
	drivers["gossiptopo"] = gossipTopoDriver
}

type recTM struct{ n int64 }

func (t *recTM) Start()                     {}
func (t *recTM) Stop()                      {}
func (t *recTM) Add(task gossip.Task) error { atomic.AddInt64(&t.n, 1); return task() }
func (t *recTM) Len() int                   { return 0 }

type recFactory struct {
	agent string
	tw    *trace.Writer
}

func batchID(b *protocol.BatchSnapshots) string {
	if b == nil || len(b.Snapshots) == 0 || b.Snapshots[0] == nil || b.Snapshots[0].Snapshot == nil {
		return "?"
	}
	return fmt.Sprintf("b%d", b.Snapshots[0].Snapshot.Version)
}

func (f *recFactory) New(ctx context.Context) gossip.Task {
	b, _ := ctx.Value("batch").(*protocol.BatchSnapshots)
	id := batchID(b)
	return func() error {
		f.tw.Emit(trace.Ev{"a": "task", "agent": f.agent, "batch": id})
		return nil
	}
}
func (f *recFactory) Metrics() []prometheus.Collector { return nil }

type inRec struct {
	agent string
	tw    *trace.Writer
}

func (r *inRec) Subscribe(id int, ch <-chan *gossip.Message) {
	go func() {
		for m := range ch {
			var b protocol.BatchSnapshots
			b.Decode(m.Payload)
			from := ""
			if m.From != nil {
				from = m.From.Name
			}
			r.tw.Emit(trace.Ev{"a": "recv", "agent": r.agent, "batch": batchID(&b), "ttl": m.TTL, "from": from, "hash": fmt.Sprintf("%x", sha256.Sum256(m.Payload))[:12]})
		}
	}()
}

func mkBatch(v int) []byte {
	b := protocol.BatchSnapshots{Snapshots: []*protocol.SignedSnapshot{{Snapshot: &protocol.Snapshot{Version: uint64(v), EventDigest: []byte{byte(v)}}, Signature: []byte{1}}}}
	p, _ := b.Encode()
	return p
}

func gossipDriver(args []string) error {
	fs := flag.NewFlagSet("gossip", flag.ExitOnError)
	out, seed, tier := commonFlags(fs)
	files := fs.Int("files", 1, "")
	first := fs.Int("fi", 0, "")
	fs.Parse(args)
	thorough := *tier == "thorough"
	stats := map[string]int{}
	for fi := *first; fi < *first+*files; fi++ {
		rng := rand.New(rand.NewSource(*seed*141650939 + int64(fi)))
		tw, err := trace.Create(filepath.Join(*out, fmt.Sprintf("gossip_%02d.ndjson", fi)))
		if err != nil {
			return err
		}
		runs := 1
		if thorough {
			runs = 4
		}
		for run := 0; run < runs; run++ {
			type ag struct {
				name, role, addr string
				a                *gossip.Agent
			}
			spec := []ag{{name: "a1", role: "auditor"}, {name: "a2", role: "auditor"}, {name: "m1", role: "monitor"}, {name: "p1", role: "publisher"}, {name: "q1", role: "qed"}}
			roles := trace.Ev{}
			var agents []ag
			for i, s := range spec {
				s.addr = qcluster.FreeAddr()
				opts := []gossip.AgentOptionF{gossip.SetNodeName(s.name), gossip.SetRole(s.role), gossip.SetBindAddr(s.addr), gossip.SetAdvertiseAddr(s.addr),
					gossip.SetTasksManager(&recTM{}), gossip.SetCache(1 << 20)}
				if i > 0 {
					opts = append(opts, gossip.SetStartJoin([]string{agents[0].addr}))
				}
				a, err := gossip.NewAgent(opts...)
				if err != nil {
					return err
				}
				s.a = a
				if s.role != "qed" {
					bp := gossip.NewBatchProcessor(a, []gossip.TaskFactory{&recFactory{agent: s.name, tw: tw}}, nil)
					a.In.Subscribe(gossip.BatchMessageType, bp, 1000)
				}
				a.In.Subscribe(gossip.BatchMessageType, &inRec{agent: s.name, tw: tw}, 1000)
				a.Start()
				agents = append(agents, s)
				roles[s.name] = s.role
			}
			tw.Emit(trace.Ev{"a": "reset", "roles": roles})
			// wait for full membership
			ok := qcluster.WaitFor(10*time.Second, func() bool {
				for _, s := range agents {
					if s.a.Memberlist() == nil || s.a.Memberlist().NumMembers() != len(agents) {
						return false
					}
				}
				return true
			})
			tw.Emit(trace.Ev{"a": "members", "ok": ok})
			time.Sleep(300 * time.Millisecond)
			nb := 0
			inject := func(who int, ttl int, v int) {
				tw.Emit(trace.Ev{"a": "inject", "agent": agents[who].name, "batch": fmt.Sprintf("b%d", v), "ttl": ttl})
				agents[who].a.Out.Publish(&gossip.Message{Kind: gossip.BatchMessageType, TTL: ttl, Payload: mkBatch(v)})
			}
			for _, ttl := range []int{3, 1, 0, 2, 5, -1, -3, 4} {
				nb++
				who := len(agents) - 1 // the QED server's agent
				if rng.Intn(3) == 0 {
					who = rng.Intn(len(agents))
				}
				inject(who, ttl, nb)
				if rng.Intn(2) == 0 { // the same batch published again (redelivery at the source)
					inject(who, ttl, nb)
				}
				if rng.Intn(2) == 0 { // redelivery storm straight into another agent's In bus
					t := rng.Intn(len(agents) - 1)
					for k := 0; k < 3; k++ {
						tw.Emit(trace.Ev{"a": "deliver", "agent": agents[t].name, "batch": fmt.Sprintf("b%d", nb), "ttl": ttl})
						agents[t].a.In.Publish(&gossip.Message{Kind: gossip.BatchMessageType, TTL: ttl, Payload: mkBatch(nb)})
					}
				}
				time.Sleep(400 * time.Millisecond)
			}
			time.Sleep(1500 * time.Millisecond)
			tw.Emit(trace.Ev{"a": "quiet"})
			for _, s := range agents {
				s.a.Shutdown()
			}
			stats["runs"]++
			stats["batches"] += nb
		}
		time.Sleep(200 * time.Millisecond)
		tw.Close()
		stats["lines"] += tw.Lines
	}
	b, _ := json.Marshal(stats)
	fmt.Println(string(b))
	return nil
}

// gossiptopo: hammer the real Topology from several goroutines and check what Each/Get return.
func gossipTopoDriver(args []string) error {
	fs := flag.NewFlagSet("gossiptopo", flag.ExitOnError)
	out, seed, tier := commonFlags(fs)
	files := fs.Int("files", 1, "")
	first := fs.Int("fi", 0, "")
	fs.Parse(args)
	thorough := *tier == "thorough"
	stats := map[string]int{}
	for fi := *first; fi < *first+*files; fi++ {
		tw, err := trace.Create(filepath.Join(*out, fmt.Sprintf("gossiptopo_%02d.ndjson", fi)))
		if err != nil {
			return err
		}
		dur := 1500 * time.Millisecond
		if thorough {
			dur = 8 * time.Second
		}
		topo := gossip.NewTopology()
		roles := []string{"auditor", "monitor", "publisher"}
		names := func(r string) []string { return []string{r + "1", r + "2", r + "3"} }
		self := gossip.NewPeer("self", "127.0.0.1", 1, "auditor")
		topo.Update(self)
		for _, r := range roles { // permanent members
			topo.Update(gossip.NewPeer(r+"0", "127.0.0.1", 1, r))
		}
		tw.Emit(trace.Ev{"a": "reset"})
		stop := make(chan struct{})
		var wg sync.WaitGroup
		var bad, eachCalls int64
		report := func(what string) {
			if atomic.AddInt64(&bad, 1) <= 20 {
				tw.Emit(trace.Ev{"a": "topo_bad", "what": what})
			}
		}
		for g := 0; g < 4; g++ { // joins / leaves / updates
			wg.Add(1)
			go func(g int) {
				defer wg.Done()
				rng := rand.New(rand.NewSource(*seed + int64(fi*100+g)))
				for {
					select {
					case <-stop:
						return
					default:
					}
					r := roles[rng.Intn(3)]
					p := gossip.NewPeer(names(r)[rng.Intn(3)], "127.0.0.1", uint16(rng.Intn(100)), r)
					if rng.Intn(2) == 0 {
						topo.Update(p)
					} else {
						topo.Delete(p)
					}
				}
			}(g)
		}
		for g := 0; g < 4; g++ { // routing decisions
			wg.Add(1)
			go func(g int) {
				defer wg.Done()
				for {
					select {
					case <-stop:
						return
					default:
					}
					var ex gossip.PeerList
					ex.L = append(ex.L, self, gossip.NewPeer("monitor0", "", 0, "monitor"))
					res := topo.Each(1, &ex)
					atomic.AddInt64(&eachCalls, 1)
					perRole := map[string]int{}
					for _, p := range res.L {
						if p == nil {
							report("Each returned a nil peer")
							continue
						}
						if p.Name == "self" || p.Name == "monitor0" {
							report("Each returned an excluded peer (self-addressed message)")
						}
						perRole[p.Meta.Role]++
					}
					for r, n := range perRole {
						if n > 1 {
							report("Each returned more than one peer for role " + r)
						}
					}
					if perRole["auditor"] == 0 || perRole["publisher"] == 0 {
						report("Each missed a role that always has a non-excluded member")
					}
					if l := topo.Get("auditor"); l == nil || l.Size() < 2 {
						report("Get lost permanent members")
					}
				}
			}(g)
		}
		time.Sleep(dur)
		close(stop)
		wg.Wait()
		tw.Emit(trace.Ev{"a": "topo_done", "each_calls": eachCalls, "bad": bad})
		tw.Close()
		stats["each_calls"] += int(eachCalls)
		stats["lines"] += tw.Lines
	}
	b, _ := json.Marshal(stats)
	fmt.Println(string(b))
	return nil
}
