package main

// clienttopo driver (C20, part 1): random operation sequences on the REAL endpoint-selection
// state machine of the client (through the verif hook), one implementation step per
// specification transition: the state before, the operation, its result and the state after
// are logged and TLC checks each step against ClientTopology.tla.

import (
	"encoding/json"
	"flag"
	"fmt"
	"math/rand"
	"path/filepath"

	"github.com/bbva/qed/client"

	"verif/harness/trace"
)

func init() { drivers["clienttopo"] = clientTopoDriver }

func topoState(v *client.VerifTopology, revive bool) trace.Ev {
	eps, pi, p, cur := v.State()
	l := []interface{}{}
	for _, e := range eps {
		l = append(l, trace.Ev{"url": e.URL, "sec": e.Secondary, "dead": e.Dead})
	}
	return trace.Ev{"eps": l, "pi": pi, "p": trace.Ev{"url": p.URL, "sec": p.Secondary, "dead": p.Dead}, "cur": cur, "revive": revive}
}

func clientTopoDriver(args []string) error {
	fs := flag.NewFlagSet("clienttopo", flag.ExitOnError)
	out, seed, tier := commonFlags(fs)
	files := fs.Int("files", 1, "")
	first := fs.Int("fi", 0, "")
	fs.Parse(args)
	thorough := *tier == "thorough"
	stats := map[string]int{}
	urls := []string{"a", "b", "c", "d"}
	for fi := *first; fi < *first+*files; fi++ {
		rng := rand.New(rand.NewSource(*seed*2038074743 + int64(fi)))
		tw, err := trace.Create(filepath.Join(*out, fmt.Sprintf("clienttopo_%02d.ndjson", fi)))
		if err != nil {
			return err
		}
		runs := 40
		if thorough {
			runs = 400
		}
		for run := 0; run < runs; run++ {
			revive := rng.Intn(2) == 0
			v := client.VerifNewTopology(revive)
			tw.Emit(trace.Ev{"a": "reset", "revive": revive})
			nops := 10 + rng.Intn(30)
			for op := 0; op < nops; op++ {
				before := topoState(v, revive)
				ev := trace.Ev{"before": before}
				switch c := rng.Intn(10); {
				case c < 2:
					p := ""
					if rng.Intn(4) != 0 {
						p = urls[rng.Intn(len(urls))]
					}
					n := rng.Intn(4)
					secs := []string{}
					sl := []interface{}{}
					seen := map[string]bool{}
					for i := 0; i < n; i++ {
						u := urls[rng.Intn(len(urls))]
						if rng.Intn(12) == 0 {
							u = ""
						}
						if seen[u] {
							// a url listed twice would make two list positions share one endpoint
							// object; cluster topologies never list a node twice
							continue
						}
						seen[u] = true
						secs = append(secs, u)
						sl = append(sl, u)
					}
					v.Update(p, secs...)
					ev["a"], ev["p"], ev["secs"] = "update", p, sl
				case c < 5:
					i := rng.Intn(5) - 1
					what := []string{"dead", "alive", "healthy"}[rng.Intn(3)]
					v.Mark(i, what)
					ev["a"], ev["i"], ev["what"] = "mark", i, what
				case c < 9:
					pref := rng.Intn(5)
					idx, url, err := v.NextRead(client.ReadPref(pref))
					ev["a"], ev["pref"], ev["ok"], ev["idx"], ev["url"] = "next", pref, err == nil, idx, url
				default:
					url, dead, err := v.Primary()
					es := "none"
					if err != nil {
						es = err.Error()
					}
					ev["a"], ev["url"], ev["dead"], ev["err"] = "primary", url, dead, es
				}
				ev["after"] = topoState(v, revive)
				tw.Emit(ev)
			}
			stats["runs"]++
		}
		tw.Close()
		stats["lines"] += tw.Lines
	}
	b, _ := json.Marshal(stats)
	fmt.Println(string(b))
	return nil
}
