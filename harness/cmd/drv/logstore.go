package main

// logstore driver (C15): random operation sequences on the real RocksDB-backed raft log store;
// every reply is compared by TLC with the map model of LogStore.tla.

import (
	"encoding/json"
	"flag"
	"fmt"
	"io/ioutil"
	"math/rand"
	"os"
	"path/filepath"

	"github.com/bbva/qed/consensus"
	"github.com/hashicorp/raft"

	"verif/harness/trace"
)

func init() { drivers["logstore"] = logstoreDriver }

func entEv(l *raft.Log) trace.Ev {
	return trace.Ev{"index": l.Index, "term": l.Term, "type": int(l.Type), "data": hx(l.Data), "ext": hx(l.Extensions)}
}

func logstoreDriver(args []string) error {
	fs := flag.NewFlagSet("logstore", flag.ExitOnError)
	out, seed, tier := commonFlags(fs)
	files := fs.Int("files", 1, "")
	first := fs.Int("fi", 0, "")
	fs.Parse(args)
	thorough := *tier == "thorough"
	tmp, err := ioutil.TempDir("", "drvlog")
	if err != nil {
		return err
	}
	defer os.RemoveAll(tmp)
	stats := map[string]int{}
	for fi := *first; fi < *first+*files; fi++ {
		rng := rand.New(rand.NewSource(*seed*15485863 + int64(fi)))
		tw, err := trace.Create(filepath.Join(*out, fmt.Sprintf("logstore_%02d.ndjson", fi)))
		if err != nil {
			return err
		}
		runs := 6
		if thorough {
			runs = 60
		}
		for run := 0; run < runs; run++ {
			dir, _ := ioutil.TempDir(tmp, "lg")
			st, err := consensus.VerifNewRaftLog(dir)
			if err != nil {
				return err
			}
			tw.Emit(trace.Ev{"a": "reset"})
			base := uint64(1)
			switch rng.Intn(4) {
			case 0:
				base = 250 // around the 1-byte boundary of big-endian keys
			case 1:
				base = 65530
			case 2:
				base = uint64(1<<24) - 5
			}
			next := base
			randIndex := func() uint64 {
				if next == base || rng.Intn(4) == 0 {
					return base + uint64(rng.Intn(40))
				}
				return base + uint64(rng.Int63n(int64(next-base)+3))
			}
			mk := func(idx uint64) *raft.Log {
				l := &raft.Log{Index: idx, Term: uint64(1 + rng.Intn(5)), Type: raft.LogType(rng.Intn(6))}
				if rng.Intn(5) != 0 {
					l.Data = make([]byte, rng.Intn(12))
					rng.Read(l.Data)
				}
				if rng.Intn(3) == 0 {
					l.Extensions = make([]byte, 1+rng.Intn(6))
					rng.Read(l.Extensions)
				}
				return l
			}
			keys := []string{"CurrentTerm", "LastVoteTerm", "LastVoteCand", "", "k\x00", "\xff"}
			reused := &raft.Log{}
			nops := 40 + rng.Intn(60)
			for op := 0; op < nops; op++ {
				ev := trace.Ev{}
				pan, msg := guard(func() {
					switch c := rng.Intn(20); {
					case c < 5: // append the next entries (what raft does)
						n := 1 + rng.Intn(4)
						logs := []*raft.Log{}
						es := []interface{}{}
						for i := 0; i < n; i++ {
							l := mk(next)
							next++
							logs = append(logs, l)
							es = append(es, entEv(l))
						}
						if n == 1 && rng.Intn(2) == 0 {
							ev = trace.Ev{"a": "store", "entries": es}
							ev["err"] = st.StoreLog(logs[0]) != nil
						} else {
							ev = trace.Ev{"a": "stores", "entries": es}
							ev["err"] = st.StoreLogs(logs) != nil
						}
					case c < 7: // overwrite / sparse store at arbitrary indexes (conflict resolution rewrites)
						n := 1 + rng.Intn(3)
						logs := []*raft.Log{}
						es := []interface{}{}
						for i := 0; i < n; i++ {
							l := mk(randIndex())
							if l.Index >= next {
								next = l.Index + 1
							}
							logs = append(logs, l)
							es = append(es, entEv(l))
						}
						ev = trace.Ev{"a": "stores", "entries": es}
						ev["err"] = st.StoreLogs(logs) != nil
					case c < 11:
						idx := randIndex()
						ev = trace.Ev{"a": "getlog", "index": idx}
						target := &raft.Log{}
						if rng.Intn(2) == 0 {
							target = reused // raft may reuse the destination struct
							ev["reused"] = true
						}
						err := st.GetLog(idx, target)
						ev["found"] = err == nil
						if err == nil {
							ev["entry"] = entEv(target)
						} else if err != raft.ErrLogNotFound {
							ev["errmsg"] = err.Error()
						}
					case c < 13:
						lo := randIndex()
						hi := lo + uint64(rng.Intn(6))
						switch rng.Intn(5) {
						case 0:
							lo, hi = base, next+2 // everything
						case 1:
							hi = lo // single
						case 2:
							if lo > 0 {
								hi = lo - 1 // empty range
							}
						}
						ev = trace.Ev{"a": "delrange", "min": lo, "max": hi}
						ev["err"] = st.DeleteRange(lo, hi) != nil
					case c < 15:
						i, err := st.FirstIndex()
						ev = trace.Ev{"a": "first", "index": i, "err": err != nil}
					case c < 17:
						i, err := st.LastIndex()
						ev = trace.Ev{"a": "last", "index": i, "err": err != nil}
					case c < 18:
						k := keys[rng.Intn(len(keys))]
						v := make([]byte, rng.Intn(9))
						rng.Read(v)
						ev = trace.Ev{"a": "set", "k": hx([]byte(k)), "v": hx(v)}
						ev["err"] = st.Set([]byte(k), v) != nil
					case c < 19:
						k := keys[rng.Intn(3)]
						v := uint64(rng.Intn(1000))
						ev = trace.Ev{"a": "setu64", "k": hx([]byte(k)), "v": fmt.Sprintf("%016x", v)}
						ev["err"] = st.SetUint64([]byte(k), v) != nil
					default:
						k := keys[rng.Intn(len(keys))]
						ev = trace.Ev{"a": "get", "k": hx([]byte(k))}
						v, err := st.Get([]byte(k))
						ev["found"] = err == nil
						if err == nil {
							ev["v"] = hx(v)
						}
					}
				})
				if pan {
					ev["panic"] = truncate(msg, 120)
				}
				tw.Emit(ev)
				if rng.Intn(18) == 0 {
					e1 := st.Close()
					var e2 error
					st, e2 = consensus.VerifNewRaftLog(dir)
					tw.Emit(trace.Ev{"a": "reopen", "err": e1 != nil || e2 != nil})
					if e2 != nil {
						return e2
					}
				}
			}
			st.Close()
			os.RemoveAll(dir)
			stats["runs"]++
		}
		tw.Close()
		stats["lines"] += tw.Lines
	}
	b, _ := json.Marshal(stats)
	fmt.Println(string(b))
	return nil
}
