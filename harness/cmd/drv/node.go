package main

// node: a child process hosting ONE real RaftNode (single-voter cluster) behind the gated store,
// driven over stdin/stdout with JSON lines, so that crashes are real process deaths (SIGKILL at
// a chosen store write) with the real RocksDB WAL and raft log left on disk.

import (
	"bufio"
	"crypto/sha256"
	"encoding/hex"
	"encoding/json"
	"flag"
	"fmt"
	"os"
	"path/filepath"
	"strings"
	"sync"
	"time"

	"net"
	"net/http"

	"github.com/bbva/qed/api/apihttp"
	"github.com/bbva/qed/api/mgmthttp"
	"github.com/bbva/qed/balloon"
	"github.com/bbva/qed/protocol"
	"github.com/bbva/qed/storage"

	"verif/harness/gate"
	"verif/harness/qcluster"
	"verif/harness/symhash"
)

func init() { drivers["node"] = nodeDriver }

type nodeCmd struct {
	Op     string   `json:"op"`
	Bulk   []string `json:"bulk,omitempty"`
	Single bool     `json:"single,omitempty"`
	D      string   `json:"d,omitempty"`
	Q      uint64   `json:"q,omitempty"`
	Latest bool     `json:"latest,omitempty"`
	S      uint64   `json:"s,omitempty"`
	E      uint64   `json:"e,omitempty"`
	When   string   `json:"when,omitempty"`
	K      int      `json:"k,omitempty"`
}

func nodeDriver(args []string) error {
	fs := flag.NewFlagSet("node", flag.ExitOnError)
	dir := fs.String("dir", "", "node directory")
	id := fs.Int("id", 1, "node id")
	sha := fs.Bool("sha", false, "use the production hasher")
	seeds := fs.String("seeds", "", "comma separated raft addresses of a cluster to join (empty: bootstrap a new one)")
	addr := fs.String("addr", "", "raft address to listen on (default: a free port)")
	fs.Parse(args)
	if !*sha {
		qcluster.UseSymbolicHasher()
	}
	var mu sync.Mutex
	w := bufio.NewWriter(os.Stdout)
	out := func(v interface{}) {
		b, _ := json.Marshal(v)
		mu.Lock()
		w.Write(b)
		w.WriteByte('\n')
		w.Flush()
		mu.Unlock()
	}
	n := &qcluster.Node{ID: *id, Dir: *dir, Addr: *addr}
	hook := func(g *gate.Store) {
		g.OnBefore = func(mi *gate.MutateInfo) {
			leaves := []string{}
			for _, l := range mi.Leaves {
				a := symhash.Global.Args(l)
				if len(a) > 0 {
					leaves = append(leaves, hex.EncodeToString(a[0]))
				} else {
					leaves = append(leaves, "?")
				}
			}
			first := uint64(0)
			if len(mi.LeafIdx) > 0 {
				first = mi.LeafIdx[0]
			}
			out(map[string]interface{}{"ev": map[string]interface{}{"a": "pbegin", "n": *id, "idx": mi.Fsm.Index, "bver": mi.Fsm.BalloonVersion,
				"hasfsm": mi.HasFsm, "prev": mi.Meta.PreviousVersion, "new": mi.Meta.NewVersion, "hasmeta": mi.HasMeta, "leaves": leaves, "first": first}})
		}
		g.OnAfter = func(mi *gate.MutateInfo) {
			out(map[string]interface{}{"ev": map[string]interface{}{"a": "pend", "n": *id, "err": mi.Err != nil}})
		}
	}
	_, statErr := os.Stat(filepath.Join(*dir, "raft"))
	var seedList []string
	if *seeds != "" {
		seedList = strings.Split(*seeds, ",")
	}
	fresh := os.IsNotExist(statErr)
	err := n.Start(qcluster.Opts{Bootstrap: fresh && len(seedList) == 0, Seeds: seedList, Hook: hook, Timeout: 300 * time.Millisecond})
	if err != nil {
		out(map[string]interface{}{"r": "start", "err": true, "errmsg": err.Error()})
		return nil
	}
	if *seeds != "" || os.Getenv("VERIF_CLUSTER_MEMBER") != "" {
		// member of a multi-process cluster: it need not be the leader
		idx, bver := n.Raft.VerifFSMState()
		out(map[string]interface{}{"r": "start", "err": false, "idx": idx, "bver": bver, "version": n.Raft.VerifBalloonVersion(), "addr": n.Addr})
		goto serve
	}
	if !qcluster.WaitFor(20*time.Second, n.Raft.IsLeader) {
		out(map[string]interface{}{"r": "start", "err": true, "errmsg": "not leader"})
		return nil
	}
	// raft replays its log asynchronously after start: a barrier returns once the FSM has
	// applied everything committed so far (raft's applied_index runs ahead of the FSM)
	for t := 0; t < 50; t++ {
		if err := n.Raft.VerifBarrier(5 * time.Second); err == nil {
			break
		}
		time.Sleep(100 * time.Millisecond)
	}
	{
		idx, bver := n.Raft.VerifFSMState()
		out(map[string]interface{}{"r": "start", "err": false, "idx": idx, "bver": bver, "version": n.Raft.VerifBalloonVersion(), "addr": n.Addr})
	}
serve:
	sc := bufio.NewScanner(os.Stdin)
	sc.Buffer(make([]byte, 1<<20), 1<<26)
	for sc.Scan() {
		var c nodeCmd
		if json.Unmarshal(sc.Bytes(), &c) != nil {
			continue
		}
		switch c.Op {
		case "add":
			evs := [][]byte{}
			for _, h := range c.Bulk {
				d, _ := hex.DecodeString(h)
				if *sha {
					evs = append(evs, d)
				} else {
					evs = append(evs, symhash.EventFor(d))
				}
			}
			var snaps []*balloon.Snapshot
			var err error
			if c.Single && len(evs) == 1 {
				var s *balloon.Snapshot
				s, err = n.Raft.Add(evs[0])
				if err == nil {
					snaps = []*balloon.Snapshot{s}
				}
			} else {
				snaps, err = n.Raft.AddBulk(evs)
			}
			sl := []map[string]interface{}{}
			for _, s := range snaps {
				sl = append(sl, map[string]interface{}{"v": s.Version, "e": hex.EncodeToString(s.EventDigest),
					"hist": hex.EncodeToString(s.HistoryDigest), "hyper": hex.EncodeToString(s.HyperDigest)})
			}
			out(map[string]interface{}{"r": "ack", "err": err != nil, "snaps": sl})
		case "member":
			d, _ := hex.DecodeString(c.D)
			var p *balloon.MembershipProof
			var err error
			pan, msg := guard(func() {
				if c.Latest {
					p, err = n.Raft.QueryDigestMembership(d)
				} else {
					p, err = n.Raft.QueryDigestMembershipConsistency(d, c.Q)
				}
			})
			if pan || err != nil {
				out(map[string]interface{}{"r": "member", "err": true, "panic": pan, "msg": msg})
			} else {
				out(map[string]interface{}{"r": "member", "err": false, "result": protocol.ToMembershipResult(nil, p)})
			}
		case "incr":
			var p *balloon.IncrementalProof
			var err error
			pan, msg := guard(func() { p, err = n.Raft.QueryConsistency(c.S, c.E) })
			if pan || err != nil {
				out(map[string]interface{}{"r": "incr", "err": true, "panic": pan, "msg": msg})
			} else {
				out(map[string]interface{}{"r": "incr", "err": false, "result": protocol.ToIncrementalResponse(p)})
			}
		case "serve":
			// real HTTP muxes (public API and management) over this node
			apiL, _ := net.Listen("tcp", "127.0.0.1:0")
			mgmtL, _ := net.Listen("tcp", "127.0.0.1:0")
			go http.Serve(apiL, apihttp.NewApiHttp(n.Raft))
			go http.Serve(mgmtL, mgmthttp.NewMgmtHttp(n.Raft))
			out(map[string]interface{}{"r": "serve", "api": apiL.Addr().String(), "mgmt": mgmtL.Addr().String()})
		case "state":
			idx, bver := n.Raft.VerifFSMState()
			out(map[string]interface{}{"r": "state", "idx": idx, "bver": bver, "version": n.Raft.VerifBalloonVersion(), "leader": n.Raft.IsLeader(),
				"members": len(n.Raft.ClusterInfo().Nodes)})
		case "dump":
			hs := sha256.New()
			counts := map[string]int{}
			for _, t := range []storage.Table{storage.HyperTable, storage.HyperCacheTable, storage.HistoryTable, storage.FSMStateTable} {
				rd := n.Gate.GetAll(t)
				for {
					buf := make([]*storage.KVPair, 256)
					k, err := rd.Read(buf)
					if k == 0 || err != nil {
						break
					}
					for i := 0; i < k; i++ {
						hs.Write([]byte{byte(t)})
						hs.Write(buf[i].Key)
						hs.Write([]byte{0xff})
						hs.Write(buf[i].Value)
						counts[t.String()]++
					}
				}
				rd.Close()
			}
			idx, bver := n.Raft.VerifFSMState()
			out(map[string]interface{}{"r": "dump", "idx": idx, "bver": bver, "version": n.Raft.VerifBalloonVersion(), "digest": hex.EncodeToString(hs.Sum(nil)), "counts": counts})
		case "transfer":
			err := n.Raft.VerifLeadershipTransfer()
			out(map[string]interface{}{"r": "transfer", "err": err != nil})
		case "snapshot":
			err := n.Raft.VerifForceSnapshot()
			out(map[string]interface{}{"r": "snapshot", "err": err != nil})
		case "kill":
			if c.When == "before" {
				n.Gate.KillBefore(c.K)
			} else {
				n.Gate.KillAfter(c.K)
			}
			out(map[string]interface{}{"r": "kill"})
		case "stop":
			err := n.Stop()
			out(map[string]interface{}{"r": "stop", "err": err != nil, "leak": int(n.Gate.LeakAtClose)})
			return nil
		default:
			out(map[string]interface{}{"r": "unknown"})
		}
	}
	return fmt.Errorf("stdin closed")
}
