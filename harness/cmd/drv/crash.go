package main

// crash driver (C07, C08): fault enumeration with REAL process deaths. A child process hosts a
// real RaftNode; the parent makes it SIGKILL itself immediately before or after the i-th store
// write of a workload (for every i and both sides), restarts it on the same directories, lets raft
// replay, finishes the workload and then checks every event — including those acknowledged
// before the crash — with the real verifier. Everything is recorded for Trace_Cluster.tla.

import (
	"bufio"
	"encoding/hex"
	"encoding/json"
	"flag"
	"fmt"
	"io"
	"io/ioutil"
	"math/rand"
	"os"
	"os/exec"
	"path/filepath"
	"time"

	"github.com/bbva/qed/balloon"
	"github.com/bbva/qed/crypto/hashing"
	"github.com/bbva/qed/protocol"
	"github.com/bbva/qed/storage/bplus"

	"verif/harness/symhash"
	"verif/harness/trace"
)

func init() { drivers["crash"] = crashDriver }

type child struct {
	cmd  *exec.Cmd
	in   io.WriteCloser
	out  *bufio.Reader
	dead bool
}

func spawnNode(dir string) (*child, error) {
	exe, _ := os.Executable()
	cmd := exec.Command(exe, "node", "-dir", dir)
	cmd.Stderr = ioutil.Discard
	in, err := cmd.StdinPipe()
	if err != nil {
		return nil, err
	}
	so, err := cmd.StdoutPipe()
	if err != nil {
		return nil, err
	}
	if err := cmd.Start(); err != nil {
		return nil, err
	}
	return &child{cmd: cmd, in: in, out: bufio.NewReaderSize(so, 1<<20)}, nil
}

// next reads lines until a response ("r") arrives; gate events ("ev") are passed to onEv.
func (c *child) next(onEv func(map[string]interface{})) (map[string]interface{}, bool) {
	for {
		line, err := c.out.ReadBytes('\n')
		if len(line) > 0 {
			var m map[string]interface{}
			if json.Unmarshal(line, &m) == nil {
				if ev, ok := m["ev"].(map[string]interface{}); ok {
					onEv(ev)
					continue
				}
				if _, ok := m["r"]; ok {
					return m, true
				}
			}
		}
		if err != nil {
			c.dead = true
			c.cmd.Wait()
			return nil, false
		}
	}
}

func (c *child) send(v interface{}) {
	b, _ := json.Marshal(v)
	c.in.Write(append(b, '\n'))
}

func (c *child) kill() {
	if !c.dead {
		c.cmd.Process.Kill()
		c.cmd.Wait()
		c.dead = true
	}
}

type crashRun struct {
	tw    *trace.Writer
	enc   *symhash.Encoder
	rng   *rand.Rand
	ref   *balloon.Balloon
	refSt *bplus.BPlusTreeStore
	refSn []*balloon.Snapshot // canonical snapshots by version (real code, in-process, never crashed)
	acked map[uint64]bool
	log   [][]byte
	q     int
}

func (r *crashRun) refAdd(bulk [][]byte) {
	ds := make([]hashing.Digest, len(bulk))
	for i := range bulk {
		ds[i] = bulk[i]
	}
	sn, muts, _ := r.ref.AddBulk(ds)
	r.refSt.Mutate(muts, nil)
	r.refSn = append(r.refSn, sn...)
	r.log = append(r.log, bulk...)
}

func unhex(s interface{}) []byte {
	str, _ := s.(string)
	b, _ := hex.DecodeString(str)
	return b
}

func (r *crashRun) onEv(ev map[string]interface{}) { r.tw.Emit(ev) }

func (r *crashRun) emitAck(bulk [][]byte, resp map[string]interface{}, alive bool) {
	bl := []interface{}{}
	for _, d := range bulk {
		bl = append(bl, hx(d))
	}
	ev := trace.Ev{"a": "ack", "n": 1, "bulk": bl, "err": !alive || resp["err"] == true}
	big := len(bulk) > 16
	if big {
		// large bulk: every version and event digest, a sample of the tree digests
		ev["a"] = "ackbig"
	}
	sl := []interface{}{}
	vs, es := []interface{}{}, []interface{}{}
	if alive {
		if snaps, ok := resp["snaps"].([]interface{}); ok {
			for i, x := range snaps {
				s := x.(map[string]interface{})
				v := uint64(s["v"].(float64))
				if !big || i == 0 || i == len(snaps)-1 {
					sl = append(sl, trace.Ev{"i": i + 1, "v": v, "e": s["e"], "hist": r.enc.Enc(unhex(s["hist"])), "hyper": r.enc.Enc(unhex(s["hyper"]))})
				}
				vs = append(vs, v)
				es = append(es, s["e"])
				r.acked[v] = true
			}
		}
	}
	ev["snaps"] = sl
	if big {
		ev["vs"], ev["es"] = vs, es
	}
	r.tw.Emit(ev)
}

func (r *crashRun) emitStart(resp map[string]interface{}, alive bool) bool {
	if !alive || resp["err"] == true {
		msg := "child died during start"
		if alive {
			msg = fmt.Sprint(resp["errmsg"])
		}
		r.tw.Emit(trace.Ev{"a": "start", "n": 1, "err": true, "errmsg": truncate(msg, 200)})
		return false
	}
	r.tw.Emit(trace.Ev{"a": "start", "n": 1, "err": false, "idx": resp["idx"], "bver": resp["bver"], "version": resp["version"]})
	return true
}

func (r *crashRun) pathTerms(p map[string]hashing.Digest) trace.Ev {
	o := trace.Ev{}
	for k, v := range p {
		o[k] = r.enc.Enc(v)
	}
	return o
}

// queryAll: every event, verified against the canonical snapshots (equal to the acknowledged ones
// where an acknowledgement exists - TLC checks that equality on the ack events)
func (r *crashRun) queryAll(c *child) bool {
	n := uint64(len(r.log))
	sample := map[uint64]bool{}
	if n > 64 {
		// long log: the last event, the first, and a few others
		sample[0], sample[n-1] = true, true
		for len(sample) < 5 {
			sample[uint64(r.rng.Int63n(int64(n)))] = true
		}
	}
	for i := uint64(0); i < n; i++ {
		if n > 64 && !sample[i] {
			continue
		}
		for t := 0; t < 2; t++ {
			q := n - 1
			latest := t == 0
			if !latest {
				q = i + uint64(r.rng.Int63n(int64(n-i)))
			}
			c.send(nodeCmd{Op: "member", D: hx(r.log[i]), Q: q, Latest: latest})
			resp, alive := c.next(r.onEv)
			r.q++
			ev := trace.Ev{"a": "nmember", "n": 1, "d": hx(r.log[i]), "q": q, "latest": latest}
			if !alive {
				ev["err"], ev["panic"] = true, "node process died while answering a query"
				r.tw.Emit(ev)
				return false
			}
			if resp["err"] == true {
				ev["err"] = true
				if resp["panic"] == true {
					ev["panic"] = truncate(fmt.Sprint(resp["msg"]), 160)
				}
				r.tw.Emit(ev)
				continue
			}
			raw, _ := json.Marshal(resp["result"])
			var back protocol.MembershipResult
			json.Unmarshal(raw, &back)
			ev["err"] = false
			ev["exists"], ev["actual"], ev["query"], ev["current"], ev["key"] = back.Exists, back.ActualVersion, back.QueryVersion, back.CurrentVersion, hx(back.KeyDigest)
			ev["wire_fields"] = true
			ev["hyper"] = r.pathTerms(back.Hyper)
			ev["history"] = r.pathTerms(back.History)
			cur, qv := back.CurrentVersion, back.QueryVersion
			if qv > cur {
				qv = cur
			}
			if cur < uint64(len(r.refSn)) {
				snap := &balloon.Snapshot{EventDigest: r.log[i], HistoryDigest: r.refSn[qv].HistoryDigest, HyperDigest: r.refSn[cur].HyperDigest, Version: qv}
				var v bool
				p, _ := guard(func() { v = protocol.ToBalloonProof(&back, symhash.New).DigestVerify(r.log[i], snap) })
				ev["v_wire"], ev["v_local"] = v, v
				if p {
					ev["v_wire_panic"] = "verifier panicked"
				}
			}
			r.tw.Emit(ev)
		}
	}
	return true
}

// one crash experiment: bulks[0..k), crash at the store write of bulk `at` (side: before/after);
// snapAt >= 0 forces a raft snapshot after that many bulks.
func (r *crashRun) experiment(dir string, bulks [][][]byte, at int, side string, snapAt int) error {
	r.tw.Emit(trace.Ev{"a": "reset", "nodes": 1, "scenario": fmt.Sprintf("crash %s write %d of %d", side, at+1, len(bulks))})
	r.tw.Emit(trace.Ev{"a": "boot", "n": 1})
	c, err := spawnNode(dir)
	if err != nil {
		return err
	}
	defer c.kill()
	resp, alive := c.next(r.onEv)
	if !r.emitStart(resp, alive) {
		return fmt.Errorf("child did not start")
	}
	for j, b := range bulks {
		r.refAdd(b)
		hb := []string{}
		for _, d := range b {
			hb = append(hb, hx(d))
		}
		if j == snapAt {
			c.send(nodeCmd{Op: "snapshot"})
			sr, ok := c.next(r.onEv)
			r.tw.Emit(trace.Ev{"a": "snapshot", "n": 1, "err": !ok || sr["err"] == true})
		}
		if j == at && side == "stop" {
			// clean shutdown at this prefix length, then reopen on the same data (C08)
			c.send(nodeCmd{Op: "stop"})
			sr, alive := c.next(r.onEv)
			leak := 0
			if alive {
				if f, ok := sr["leak"].(float64); ok {
					leak = int(f)
				}
			}
			r.tw.Emit(trace.Ev{"a": "stop", "n": 1, "err": !alive || sr["err"] == true, "leak": leak})
			c.cmd.Wait()
			c.dead = true
			r.tw.Emit(trace.Ev{"a": "exit", "n": 1, "code": c.cmd.ProcessState.ExitCode()})
			r.tw.Emit(trace.Ev{"a": "boot", "n": 1})
			c, err = spawnNode(dir)
			if err != nil {
				return err
			}
			defer c.kill()
			resp, alive := c.next(r.onEv)
			if !r.emitStart(resp, alive) {
				return nil
			}
		} else if j == at {
			c.send(nodeCmd{Op: "kill", When: side, K: 1})
			c.next(r.onEv)
		}
		c.send(nodeCmd{Op: "add", Bulk: hb, Single: len(hb) == 1 && r.rng.Intn(2) == 0})
		resp, alive := c.next(r.onEv)
		r.emitAck(b, resp, alive)
		if !alive {
			if j != at {
				r.tw.Emit(trace.Ev{"a": "died", "n": 1, "unexpected": true})
				return fmt.Errorf("child died unexpectedly")
			}
			r.tw.Emit(trace.Ev{"a": "kill", "n": 1, "side": side})
			// restart on the same directories: real RocksDB WAL recovery + raft log replay
			time.Sleep(50 * time.Millisecond)
			r.tw.Emit(trace.Ev{"a": "boot", "n": 1})
			c, err = spawnNode(dir)
			if err != nil {
				return err
			}
			defer c.kill()
			resp, alive = c.next(r.onEv)
			if !r.emitStart(resp, alive) {
				return nil // recorded: the spec flags a node that cannot restart
			}
		}
	}
	ok := r.queryAll(c)
	if ok {
		c.send(nodeCmd{Op: "stop"})
		sr, alive := c.next(r.onEv)
		leak := 0
		if alive {
			if f, ok := sr["leak"].(float64); ok {
				leak = int(f)
			}
		}
		r.tw.Emit(trace.Ev{"a": "stop", "n": 1, "err": !alive || sr["err"] == true, "leak": leak})
		if alive {
			c.cmd.Wait()
			r.tw.Emit(trace.Ev{"a": "exit", "n": 1, "code": c.cmd.ProcessState.ExitCode()})
			c.dead = true
		}
	}
	return nil
}

func crashDriver(args []string) error {
	fs := flag.NewFlagSet("crash", flag.ExitOnError)
	out, seed, tier := commonFlags(fs)
	files := fs.Int("files", 1, "")
	first := fs.Int("fi", 0, "")
	mode := fs.String("mode", "kill", "kill|stop")
	big := fs.Bool("big", false, "long log: three bulks of ~360 events (the hyper cache table spans pages of the warm-up), then small insertions; the crash hits the first small one")
	fs.Parse(args)
	thorough := *tier == "thorough"
	tmp, err := ioutil.TempDir("", "drvcrash")
	if err != nil {
		return err
	}
	defer os.RemoveAll(tmp)
	stats := map[string]int{}
	for fi := *first; fi < *first+*files; fi++ {
		rng := rand.New(rand.NewSource(*seed*49979687 + int64(fi)))
		tw, err := trace.Create(filepath.Join(*out, fmt.Sprintf("crash_%02d.ndjson", fi)))
		if err != nil {
			return err
		}
		dw, err := trace.Create(filepath.Join(*out, fmt.Sprintf("crash_%02d.defs.ndjson", fi)))
		if err != nil {
			return err
		}
		enc := symhash.NewEncoder(symhash.Global, func(def symhash.Term) { dw.Emit(def) })
		usz := 14 + 16
		if *big {
			usz = 14 + 1300
		}
		u := makeUniverse(rng, usz)
		keys := trace.Ev{}
		for _, k := range u {
			keys[hx(k)] = bitsOf(k)
		}
		tw.Emit(trace.Ev{"a": "universe", "keys": keys})
		// the workload of this file: k bulks; this file explores a slice of its crash points
		k := 3 + rng.Intn(3)
		perm := rng.Perm(len(u))
		bulks := [][][]byte{}
		pi := 0
		for j := 0; j < k; j++ {
			ln := 1 + rng.Intn(3)
			if j == 0 && fi%2 == 0 {
				ln = 1 // "exactly one event (version 0)" is indistinguishable from "nothing" in several places
			}
			b := [][]byte{}
			for x := 0; x < ln; x++ {
				b = append(b, u[perm[pi%len(perm)]])
				pi++
			}
			bulks = append(bulks, b)
		}
		points := 2
		if thorough {
			points = 2 * k
		}
		bigAt := -1
		if *big {
			bulks = bulks[:0]
			pi = 14 // random digests only: one hyper cache tile each
			for j := 0; j < 3; j++ {
				b := [][]byte{}
				for x := 0; x < 340+rng.Intn(40); x++ {
					b = append(b, u[pi])
					pi++
				}
				bulks = append(bulks, b)
			}
			for j := 0; j < 3; j++ {
				b := [][]byte{}
				for x := 0; x < 1+rng.Intn(3); x++ {
					b = append(b, u[pi])
					pi++
				}
				bulks = append(bulks, b)
			}
			k = len(bulks)
			bigAt = 3 + fi%2
			points = 1
		}
		for p := 0; p < points; p++ {
			at := (fi + p/2) % k
			side := []string{"before", "after"}[(fi+p)%2]
			if *mode == "stop" {
				side = "stop"
				at = (fi + p) % k
			}
			if bigAt >= 0 {
				at = bigAt
			}
			snapAt := -1
			if rng.Intn(3) == 0 && at > 0 {
				snapAt = rng.Intn(at)
			}
			dir, _ := ioutil.TempDir(tmp, "cr")
			st := bplus.NewBPlusTreeStore()
			ref, _ := balloon.NewBalloon(st, symhash.New)
			r := &crashRun{tw: tw, enc: enc, rng: rng, ref: ref, refSt: st, acked: map[uint64]bool{}}
			if err := r.experiment(dir, bulks, at, side, snapAt); err != nil {
				tw.Emit(trace.Ev{"a": "scenario_error", "msg": truncate(err.Error(), 200)})
			}
			ref.Close()
			os.RemoveAll(dir)
			stats["runs"]++
			stats["queries"] += r.q
		}
		tw.Close()
		if dw.Lines == 0 {
			dw.Emit(trace.Ev{"h": []interface{}{}})
		}
		dw.Close()
		stats["lines"] += tw.Lines
	}
	b, _ := json.Marshal(stats)
	fmt.Println(string(b))
	return nil
}
