#!/bin/sh
# Runs the repository's pinned baseline (guard OFF, no shim: exactly the environment of BASELINE.json)
# and checks that every stable_pass test still passes.
cd /repo || exit 2
export GOFLAGS=-mod=mod GOPROXY=off GOSUMDB=off GOTOOLCHAIN=local
OUT=$(mktemp)
go test -json -vet=off -count=1 -timeout 25m ./... > "$OUT" 2>/dev/null
python3 - "$OUT" <<'PY'
import json, sys
passed = set()
for line in open(sys.argv[1]):
    try:
        e = json.loads(line)
    except Exception:
        continue
    if e.get("Action") == "pass" and e.get("Test"):
        passed.add(e["Package"] + "::" + e["Test"])
base = json.load(open("/root/.vp/BASELINE.json"))["stable_pass"]
missing = [t for t in base if t not in passed]
print("baseline: %d/%d stable tests pass" % (len(base) - len(missing), len(base)))
for t in missing[:20]:
    print("  MISSING", t)
sys.exit(1 if missing else 0)
PY
RC=$?
rm -f "$OUT"
exit $RC
