# source me: build environment for every check (offline, RocksDB shim)
VERIF_ROOT="${VERIF_ROOT:-/verif}"
S="$VERIF_ROOT/shim"
export GOFLAGS=-mod=mod GOPROXY=off GOSUMDB=off GOTOOLCHAIN=local
export CGO_LDFLAGS_ALLOW='.*'
export CGO_CFLAGS="-I$S/include" CGO_CXXFLAGS="-I$S/include" CGO_LDFLAGS="-L$S/lib"
export CXX="$S/bin/cxx"
export TLA_JAR=/opt/veriftools/tla/tla2tools.jar
