#!/bin/sh
# Offline setup: build the RocksDB shim pieces and warm the Go build cache for the harness.
set -e
cd "$(dirname "$0")"
mkdir -p shim/lib evidence out
[ -f shim/lib/libjemalloc.a ] || ar rc shim/lib/libjemalloc.a
chmod +x shim/bin/cxx check baseline_off.sh tlc.sh mk-manifest 2>/dev/null || true
. ./env.sh
cp /repo/go.sum harness/go.sum
(cd harness && go build -tags verif -o /dev/null ./cmd/drv)
java -cp "$TLA_JAR" tlc2.TLC -h >/dev/null 2>&1 || true
echo setup ok
