/* verif build shim: adapt the RocksDB 7.x C API to the 6.x prototypes QED's cgo wrapper was written for. */
#ifndef QED_VERIF_ROCKSDB_C_SHIM_H
#define QED_VERIF_ROCKSDB_C_SHIM_H
#define rocksdb_backup_engine_restore_db_from_backup qed_upstream_restore_db_from_backup
#define rocksdb_filterpolicy_create_bloom qed_upstream_create_bloom
#define rocksdb_filterpolicy_create_bloom_full qed_upstream_create_bloom_full
#include_next <rocksdb/c.h>
#undef rocksdb_backup_engine_restore_db_from_backup
#undef rocksdb_filterpolicy_create_bloom
#undef rocksdb_filterpolicy_create_bloom_full
#ifdef __cplusplus
extern "C" {
#endif
extern rocksdb_filterpolicy_t* qed_real_create_bloom(double) __asm__("rocksdb_filterpolicy_create_bloom");
extern rocksdb_filterpolicy_t* qed_real_create_bloom_full(double) __asm__("rocksdb_filterpolicy_create_bloom_full");
static inline rocksdb_filterpolicy_t* rocksdb_filterpolicy_create_bloom(int bits) __asm__("qed_shim_create_bloom");
static inline rocksdb_filterpolicy_t* rocksdb_filterpolicy_create_bloom(int bits) { return qed_real_create_bloom((double)bits); }
static inline rocksdb_filterpolicy_t* rocksdb_filterpolicy_create_bloom_full(int bits) __asm__("qed_shim_create_bloom_full");
static inline rocksdb_filterpolicy_t* rocksdb_filterpolicy_create_bloom_full(int bits) { return qed_real_create_bloom_full((double)bits); }
static inline void rocksdb_block_based_options_set_hash_index_allow_collision(
    rocksdb_block_based_table_options_t* o, unsigned char v) { (void)o; (void)v; }
#ifdef __cplusplus
}
#endif
#endif
