"""Human-written manifest texts per property."""

ENGINES = [
    {"name": "tla-mc", "path": "/verif/spec", "serves_properties": [],
     "kind_free_text": "TLA+ specification modules (Hashing, History, Hyper, Balloon, ...) model-checked exhaustively with TLC on bounded configurations (MC_*.tla)"},
    {"name": "tla-tv", "path": "/verif/harness", "serves_properties": [],
     "kind_free_text": "Go drivers run the real QED code (real RocksDB through the build shim, real JSON wire format, real verifiers) with a symbolic hash-consing hasher, record ndjson traces with digest terms, and TLC validates every trace event against the specification (Trace_*.tla)"},
]

NOTES = ("All checks are `./check <ID> --tier quick|thorough`; they rebuild the harness against /repo's working tree "
         "(-tags verif), model-check the specification with TLC and validate traces of the real code against it. "
         "Known findings are listed in known-findings.json. See DESIGN.md.")

_TREES_NOTE = ("Trusted: TLC/SANY/CommunityModules Json; the harness' symbolic hasher (hash-consing on the argument list) and "
               "term encoder, cross-checked by evaluating every issued digest with real SHA-256; hashing is a free constructor in the "
               "specification, so results are exact up to SHA-256 collisions; bounds: MC up to MaxN leaves exhaustively, "
               "conformance on seeded scenarios (structured 256-bit digests around every batch/cache boundary).")

META = {
    "C01": {
        "text": "The history-tree design is model-checked exhaustively (every tree size <= MaxN, every (index, version) pair: prover "
                "collects exactly what the verifier reads and the proof verifies). The real Balloon is then driven through seeded "
                "scenarios (single/bulk adds, duplicates, long shared digest prefixes, reopen, both stores); every membership answer "
                "goes through the real JSON wire format and the real DigestVerify, and TLC validates each recorded answer against the "
                "specification's answer (existence, claimed version, both audit paths as hash terms, verdict).",
        "note": _TREES_NOTE, "technique": "TLA+ model checking (TLC) + trace validation of the real balloon against the specification",
    },
    "C03": {
        "text": "Model-checked exhaustively for every pair (i, j) up to MaxN: honest proofs verify; any other version's digest, digests of "
                "forked logs, altered start/end fields and every single dropped/replaced audit-path entry are rejected. The real "
                "QueryConsistency/IncrementalProof.Verify (through the wire format) are validated against the specification on seeded logs, "
                "including digests of a second real balloon that shares a prefix and diverges.",
        "note": _TREES_NOTE, "technique": "TLA+ model checking (TLC) + trace validation of the real balloon against the specification",
    },
    "C04": {
        "text": "Root/HRoot are defined in TLA+ by the published construction; the incremental frozen-node algorithm is model-checked equal "
                "to it. Every snapshot the real balloon issues (any Add/AddBulk partition, duplicates, reopen points, RocksDB and B+ store) "
                "is compared term-for-term with the canonical digests by TLC, and each validated term is evaluated with real SHA-256 and "
                "compared with the digest the same workload produces under the production hasher.",
        "note": _TREES_NOTE, "technique": "TLA+ canonical definition + TLC trace validation of digest terms + SHA-256 term evaluation",
    },
}

NOT_APPLICABLE = {}
