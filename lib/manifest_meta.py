"""Human-written manifest texts per property."""

ENGINES = [
    {"name": "tla-mc", "path": "/verif/spec", "serves_properties": [],
     "kind_free_text": "TLA+ specification modules (Hashing, History, Hyper, Balloon, ...) model-checked exhaustively with TLC on bounded configurations (MC_*.tla)"},
    {"name": "tla-tv", "path": "/verif/harness", "serves_properties": [],
     "kind_free_text": "Go drivers run the real QED code (real RocksDB through the build shim, real JSON wire format, real verifiers) with a symbolic hash-consing hasher, record ndjson traces with digest terms, and TLC validates every trace event against the specification (Trace_*.tla)"},
]

NOTES = ("All checks are `./check <ID> --tier quick|thorough`; they rebuild the harness against /repo's working tree "
         "(-tags verif), model-check the specification with TLC and validate traces of the real code against it. "
         "Known findings are listed in known-findings.json. See DESIGN.md.")

_TREES_NOTE = ("Trusted: TLC/SANY/CommunityModules Json; the harness' symbolic hasher (hash-consing on the argument list) and "
               "term encoder, cross-checked by evaluating every issued digest with real SHA-256; hashing is a free constructor in the "
               "specification, so results are exact up to SHA-256 collisions; bounds: MC up to MaxN leaves exhaustively, "
               "conformance on seeded scenarios (structured 256-bit digests around every batch/cache boundary).")

META = {
    "C01": {
        "text": "The history-tree design is model-checked exhaustively (every tree size <= MaxN, every (index, version) pair: prover "
                "collects exactly what the verifier reads and the proof verifies). The real Balloon is then driven through seeded "
                "scenarios (single/bulk adds, duplicates, long shared digest prefixes, reopen, both stores); every membership answer "
                "goes through the real JSON wire format and the real DigestVerify, and TLC validates each recorded answer against the "
                "specification's answer (existence, claimed version, both audit paths as hash terms, verdict).",
        "note": _TREES_NOTE, "technique": "TLA+ model checking (TLC) + trace validation of the real balloon against the specification",
    },
    "C03": {
        "text": "Model-checked exhaustively for every pair (i, j) up to MaxN: honest proofs verify; any other version's digest, digests of "
                "forked logs, altered start/end fields and every single dropped/replaced audit-path entry are rejected. The real "
                "QueryConsistency/IncrementalProof.Verify (through the wire format) are validated against the specification on seeded logs, "
                "including digests of a second real balloon that shares a prefix and diverges.",
        "note": _TREES_NOTE, "technique": "TLA+ model checking (TLC) + trace validation of the real balloon against the specification",
    },
    "C04": {
        "text": "Root/HRoot are defined in TLA+ by the published construction; the incremental frozen-node algorithm is model-checked equal "
                "to it. Every snapshot the real balloon issues (any Add/AddBulk partition, duplicates, reopen points, RocksDB and B+ store) "
                "is compared term-for-term with the canonical digests by TLC, and each validated term is evaluated with real SHA-256 and "
                "compared with the digest the same workload produces under the production hasher.",
        "note": _TREES_NOTE, "technique": "TLA+ canonical definition + TLC trace validation of digest terms + SHA-256 term evaluation",
    },
}

META["C02"] = {
    "text": "Soundness is an invariant of the specification (accepted => the claim is true) and is model-checked exhaustively on an 8-bit "
            "universe against an adversary that alters every field, drops or replaces every audit-path entry with every digest it knows, "
            "and recombines answers; the same invariant fails for the verifier of the pinned commit (skipped history check), which is "
            "how the defect fixed by 2cea738 was found. Conformance: thousands of altered/forged wire answers derived from real "
            "answers (digests sharing 0..255-bit prefixes with inserted ones, absence claims, actual>query, recombination, wrong "
            "snapshots) go through the real JSON decoder and real DigestVerify; TLC decides from the log whether each accepted claim is true. The adversary also relabels (query, actual) pairs and verifies them against the authentic snapshot of the relabelled version, places every known node hash at its own position on the root-to-leaf way (ancestor_in_path), and hands raw 200-OK bodies to the real HTTP client.",
    "note": _TREES_NOTE + " Adversary knowledge in MC is bounded (two edits); in conformance it is the mutation grammar of DESIGN.md §5 C02.",
    "technique": "TLA+ adversary model checked with TLC + trace validation of real verifier outcomes on mutated answers",
}
META["C12"] = {
    "text": "The specification's verifiers are total functions over arbitrary partial audit paths (missing entry => reject), model-checked "
            "over every dropped/replaced entry. The real decoder + verifier are run on every mutation of the grammar (missing, extra, "
            "renamed, malformed keys, wrong digest lengths, version triples up to 2^64-1, >256 hyper entries, nil parts) inside a guarded "
            "goroutine with a deadline; TLC validates each outcome: a panic or timeout is a violation, and accept/reject is compared "
            "with the specification verifier. Raw 200-OK bodies (null, {}, [], truncated JSON, wrong types) are handed to the real HTTP client by a scripted server; a panic or hang of the client is a violation.",
    "note": _TREES_NOTE + " Arbitrary byte strings are covered only as structured mutations of genuine answers (not model checking of all byte strings).",
    "technique": "TLA+ total verifier specification + TLC trace validation of guarded real-verifier runs on structured mutations",
}

_STORE_NOTE = ("Trusted: TLC/SANY/CommunityModules; the driver's reply logging; RocksDB 7.8.3 (Debian) through the build shim instead of the "
               "vendored 6.x; integers in traces stay below 2^31 (TLC), so index magnitudes near 2^64 are not explored.")
META["C14"] = {
    "text": "Store.tla specifies one sorted map per table; its lemmas (paged scan returns every entry once in order for every page size, "
            "last = max of that table only, inclusive ranges, isolation) are model-checked exhaustively. Both real back-ends are driven "
            "with seeded operation sequences and every reply is validated against the model by TLC (this is how the cross-table leaks of "
            "the B+ store and the bounded GetLast of the RocksDB store were found). A batch of more than 1024 mutations is written while a concurrent reader takes consistent range reads over its keys (RocksDB); scans run with fresh and with re-used pages.",
    "note": _STORE_NOTE, "technique": "TLA+ sorted-map model (TLC) + trace validation of both real store back-ends",
}
META["C15"] = {
    "text": "LogStore.tla specifies index->entry and key->value maps with inclusive range deletion; lemmas model-checked exhaustively. The real "
            "RocksDB-backed raft log store (through a build-tag hook exporting its constructor) is driven with seeded operation sequences "
            "incl. overwrites, sparse indexes, empty/whole ranges, reused decode targets and reopen; every reply validated against the model by TLC.",
    "note": _STORE_NOTE, "technique": "TLA+ log-store model (TLC) + trace validation of the real raft log store",
}

_CLUSTER_NOTE = ("Trusted: hashicorp/raft's agreement and ordering (modelled as one committed log; its log store is ours and checked by C15), "
                 "RocksDB's atomic write batch, TLC, the gated store decorator (pure delegation + logging) and the symbolic hasher. "
                 "MC bounds: the constants listed in the evidence; conformance: seeded scenarios on real in-process 3-node clusters.")
META["C05"] = {
    "text": "Cluster.tla invariants AckedDense / VersionCounter / NoVersionPanic / DurableIsPrefix are model-checked over every interleaving of "
            "proposals, raft-internal entries (index gaps), compute/persist steps, crashes, restarts with the replay filter, snapshots and "
            "state transfer. Real clusters are driven with single/bulk adds, follower stop/restart and leadership transfers; TLC validates "
            "every acknowledgement (version = next one, m consecutive versions per bulk, event digest, canonical history/hyper digests) and "
            "every store write of every node (applied index strictly increasing, insertion continues at the node's next version). Concurrent writers (one bulk of 255..700 events against three writers of small bulks on three nodes) must each get consecutive versions in request order.",
    "note": _CLUSTER_NOTE, "technique": "TLA+ cluster model (TLC) + trace validation of real raft clusters through a gated store",
}
META["C06"] = {
    "text": "ReplicasAgree (equal applied index => equal stores) is an invariant of Cluster.tla. On real clusters every replica's complete "
            "store is dumped at quiescent points and compared per applied index, every node's writes must carry the same event digests at "
            "the same versions, and membership/consistency proofs fetched from EVERY replica are verified (through the wire format) against "
            "the snapshots the leader acknowledged, across follower restarts, leadership transfers and catch-up by log replay; TLC "
            "re-derives each expected answer from the committed log.",
    "note": _CLUSTER_NOTE, "technique": "TLA+ cluster model (TLC) + trace validation of proofs and store dumps of every replica",
}
META["C09"] = {
    "text": "InstallSnapshot is an action of Cluster.tla (WAL batches newer than the follower's version, gap => refused, idempotent "
            "re-load, reload of fsm state/version and cache rebuild); CacheCoherent/DurableIsPrefix/ReplicasAgree are model-checked, and the "
            "variant without the cache rebuild (the pinned code) violates CacheCoherent. Real clusters: a follower is stopped (or a brand "
            "new node is used), events are added, raft snapshots are forced on the others (log compaction), optionally the leader changes, "
            "the node (re)joins by gRPC state transfer; then every event is queried ON THE RESTORED NODE and verified against the leader's "
            "snapshots, its store is compared with the other replicas, more events are added and the restored node is made leader so that "
            "its locally computed digests are the acknowledged ones; all validated by TLC. Restore variants are enumerated (new / old node with history none, one event, several x first missed insertion single / bulk x leader change); the restored node is then made leader and itself serves a full transfer to a follower whose disk was replaced (Cluster.tla: Wipe, WalServesEveryone).",
    "note": _CLUSTER_NOTE + " The gap-refusal clause is model-checked only (forcing RocksDB to drop WAL files takes minutes of load).",
    "technique": "TLA+ cluster model with InstallSnapshot (TLC) + trace validation of real state transfer",
}

META["C07"] = {
    "text": "Cluster.tla enables Crash in every state, in particular between ApplyCompute and ApplyPersist; DurableIsPrefix, NoVersionPanic, "
            "AppendOnly and ReplicasAgree are model-checked over all crash interleavings. Fault enumeration on the real code: for every store "
            "write i of a workload and both sides of it, a child process hosting a real RaftNode (real RocksDB WAL, real raft log) kills "
            "itself with SIGKILL exactly there, is restarted, and TLC validates that the state it reports is the state before or after the "
            "interrupted atomic write, that replay applies the interrupted entry exactly once (index strictly above the persisted one, "
            "insertion continues at the next version), that later acknowledgements carry the canonical digests, and that every event "
            "(also those acknowledged before the crash) has a proof that verifies against the original snapshots. A long log (three bulks of ~360 events, > 1000 hyper cache tiles) is SIGKILLed at the next store write and recovered.",
    "note": _CLUSTER_NOTE + " Process death (SIGKILL) is the fault model; power loss is out of scope (QED does not fsync by configuration). "
            "Random wall-clock SIGKILLs are not used: the crash points are enumerated at the store-write boundary.",
    "technique": "TLA+ crash model (TLC) + fault enumeration by SIGKILL at every store write, validated by TLC trace checking",
}
META["C08"] = {
    "text": "In Cluster.tla Stop;Restart rebuilds the volatile state from the store (CacheCoherent, VersionCounter) and is invisible to every "
            "observable. Real code: a child-process node is stopped cleanly at every prefix length (including zero insertions) and "
            "reopened; its exit status must be 0 (the assertion-enabled RocksDB aborts on leaked references), the gated store must see "
            "every reader closed, the reloaded (applied index, version) must equal the persisted ones, and all later acknowledgements and "
            "proofs must equal the canonical ones (TLC); the balloon is additionally closed/reopened at random points on RocksDB. Scale: a balloon of 1000..3900 events is reopened at 999 / 1000 / 1001 / mid-page / multi-page hyper-cache tile counts (incremental hyper tree of Hyper.tla, shown canonical by MC_Hyper); a node is stopped while a query is parked inside its history proof (shutdown must wait, the process must survive).",
    "note": _CLUSTER_NOTE, "technique": "TLA+ cluster model (TLC) + trace validation of stop/reopen at every prefix incl. process exit status",
}

META["C10"] = {
    "text": "Cluster.tla has ApplyCompute and ApplyPersist as separate steps with Query enabled in between only in the pinned variant "
            "(QueryExcludesApply = FALSE), for which TLC finds the mixed-state reply; the intended variant satisfies QueryConsistent. On the "
            "real node the gated store holds the store write of an insertion while concurrent goroutines issue membership queries for old "
            "and in-flight events at all versions and consistency queries for pairs including in-flight versions; each reply must be a "
            "clean error or a proof that verifies against the snapshots acknowledged for the versions it names, be computed from ONE prefix "
            "the node could hold (before or after the insertion), and no query may fail internally or hang; TLC validates every reply. An insertion is also parked inside balloon.AddBulk (gated read of the hyper table), and proofs taken before an insertion are encoded and verified only after it.",
    "note": _CLUSTER_NOTE + " The data-race clause is a memory-model property outside TLA+: in the thorough tier the window / replicas / backup / HTTP scenarios run once more under the Go race detector and a report between two QED sites (no verification hook on either stack) is a violation; the quick tier does not decide it.",
    "technique": "TLA+ compute/persist window model (TLC) + gated-store schedule replay with TLC trace validation of every reply",
}
META["C16"] = {
    "text": "BackupExact (a backup records the version of the store it captures) is an invariant of Cluster.tla; the variant where Backup "
            "runs mid-apply violates it. Real code: random add/backup/delete sequences (TLC checks recorded version = version of the "
            "captured store, listing = existing backups, delete removes only the named one, also for backups taken inside the held "
            "compute->persist window); then every existing backup is restored into a fresh directory and opened as a new node: reported "
            "version, membership + consistency of its v+1 events against the ORIGINAL snapshots, later events unknown, and the next "
            "insertion must get version v+1 with the canonical digests of the forked log. A backup taken while an insertion is submitted between the version read and the engine copy (gated Backup) must record the version of what it captures; every second restored node is restarted before its first insertion.",
    "note": _CLUSTER_NOTE + " A backup of an empty log (no version exists) is not judged.",
    "technique": "TLA+ backup invariant (TLC) + trace validation of backup/list/delete/restore on real nodes",
}

META["C11"] = {
    "text": "Api.tla maps request classes to allowed response classes and state effects (every request gets a response; only a well-formed "
            "add extends the log, by exactly its number of events; a valid add answers 2xx); Cluster.tla's NoVersionPanic covers 'everything "
            "replicated is applicable'. The request matrix is fired at the real apihttp/mgmthttp muxes over a real RaftNode hosted in a "
            "child process (so an FSM panic is a real process death); TLC validates each outcome: a dropped connection, a dead or wedged "
            "process, a log change by a non-add, a failed liveness probe or a failed restart (log replay) is a violation. Batches repeating one event 2, 3, N times, and insertions during concurrent membership queries for a 6 MB key, are part of the matrix.",
    "note": "Trusted: TLC, the driver's HTTP client, net/http. The matrix is structured (not all byte strings); oversized means 300 events.",
    "technique": "TLA+ request/response specification + TLC trace validation of the real HTTP handlers over a child-process node",
}

META["C20"] = {
    "text": "ClientTopology.tla specifies the endpoint-selection state machine (object sharing between primary and list, round-robin cursor, dead "
            "marks, revive rule, preference fall-through); Safe (never dead / never excluded by the preference / an endpoint is returned whenever a "
            "live permitted one exists) and Fair (cyclic visiting) are model-checked exhaustively, and the pinned variant that keeps the node type "
            "of re-used endpoints violates Safe. The real topology object is stepped through seeded operation sequences, each real transition "
            "validated by TLC. The real HTTPClient runs against a scripted cluster: TLC checks that every write goes to the node the client "
            "currently believes to be the leader (configuration, redirects, /info/shards), that every call returns with a bounded number of "
            "requests, and that writes converge on the new leader within three calls whenever redirect, health check or discovery can reach it.",
    "note": "Trusted: TLC, the scripted RoundTripper cluster (no sockets), net/http redirect handling. maxRetries is 0 in the call-level runs (the backoff "
            "retrier sleeps 1 s per retry); health-check period is not exercised (checks run once per call path).",
    "technique": "TLA+ endpoint-selection model (TLC) + per-transition trace validation of the real topology + trace validation of real client calls",
}

META["C17"] = {
    "text": "Sender.tla models the snapshot channel and the concurrent batchers (flush on a full batch at the next arrival, flush on the interval "
            "timer); batch bound, exactly-once accounting (produced = published + held + in channel) and, under weak fairness of the timer, "
            "eventual publication are model-checked over all interleavings. The real Sender runs on a real agent's outgoing bus with seeded "
            "arrival patterns; TLC validates every batch (size, no duplicate, nothing unknown, configured TTL) and that nothing is left once "
            "arrivals stop. Signatures are symbolic in the specification (Sig(m) verifies exactly m); the real ed25519 clause is exercised by "
            "the harness: each published signature verifies, and every single-field change and every single signature-bit flip of sampled "
            "snapshots (and another key) must fail. Snapshots carry 32-byte digests; one bit at byte offsets 1..31 of every digest, truncations and swaps must each break the signature.",
    "note": "Trusted: TLC; the harness re-creates the signed message as fmt.Sprintf(\"%v\", snapshot) exactly as server/sender.go does (the repository has no "
            "verifier for signed snapshots). Cryptographic strength of ed25519 is not a TLA+ matter: only the enumerated modifications are tried.",
    "technique": "TLA+ batcher model incl. liveness (TLC) + trace validation of the real sender and signature tamper enumeration",
}

META["C18"] = {
    "text": "Gossip.tla models hop-by-hop forwarding (TTL test, decrement, one peer per role excluding self), the per-agent processed cache and "
            "network duplication; TLC checks that no message is sent on once its TTL is exhausted (also for initial TTLs <= 0), that an agent "
            "creates tasks at most once per batch, never addresses itself and that dissemination is bounded; the pinned Send (TTL == 0 test only) "
            "violates NeverExhausted. Real agents over loopback are driven with injected, re-published and re-delivered batches; TLC judges "
            "every reception (ttl >= 0, lowered by exactly one from some other holder, never self-addressed), every task and the total number "
            "of receptions per batch. The real Topology is exercised by concurrent joins/leaves and routing decisions; a crash of the process "
            "or a nil/excluded/duplicate peer returned by Each is a violation.",
    "note": "Trusted: memberlist delivery, TLC. Linearizability of Topology is judged by result invariants (never an excluded peer, at most one per role, "
            "permanent members always found), not by a full linearizability checker; data races as such are outside TLA+: the thorough tier runs both conformance scenarios once more under the Go race detector (a report between two QED sites is a violation).",
    "technique": "TLA+ gossip model (TLC) + trace validation of real agents over memberlist + concurrent stress of the real topology",
}

META["C19"] = {
    "text": "Agents.tla specifies which published values the auditor (event digest, version and history digest of the batch's first snapshot + "
            "the STORED hyper digest of the current version) and the monitor (history digests and versions of first and last snapshot) bind, and "
            "the publisher's forward-once rule; with the verifiers' soundness/completeness (model-checked in MC_History / MC_Balloon) an alert "
            "is due exactly when a bound value or the log's answer was altered. The real factories run inside a real agent with the real batch "
            "processor, client and API handlers over a real node; TLC validates for every delivered batch that an alert is raised iff due, that "
            "no alert is raised against the honest log (also for alterations of values a task does not bind), that the publisher forwards "
            "exactly the not-yet-forwarded snapshots, and a crash of the agent (e.g. on an empty batch) is a violation. Batches start anywhere including the log's current version, and each pass re-delivers an honest batch altered but with its original signatures.",
    "note": "Trusted: TLC, the recording notifier / snapshot store / task manager of the harness. One alteration per batch; the snapshot store being "
            "unable to deliver a snapshot at all is not judged.",
    "technique": "TLA+ agent/verifier specification (TLC) + trace validation of the real task factories under single alterations",
}

META["C13"] = {
    "text": "Balloon.tla contains the wire mapping (the public form drops the history proof's own index/version and the hyper value; they are "
            "rebuilt from ActualVersion/QueryVersion) and WireFaithful (same verdict before and after, for every digest and snapshot pair, also for "
            "queries beyond the current version) is model-checked; every proof in the balloon and cluster traces goes through the real JSON round "
            "trip with fields and verdict compared under TLC. What TLC cannot hold (64-bit magnitudes in position keys, byte-level msgpack/JSON "
            "fidelity of snapshots, batches and gossip messages) is checked by an identity oracle on the real encoders, logged and accepted/rejected "
            "by a trivial trace spec. Every encoding is decoded twice: at once and after all later encodings were produced.",
    "note": "The magnitude / byte-level clause is an identity oracle, not model checking (TLC integers are 32-bit). Replicated commands are covered "
            "indirectly: they travel through their real encoding and the raft log store in every cluster run, and replica stores are compared.",
    "technique": "TLA+ wire-mapping invariant (TLC) + TLC-validated round trips of every real proof + identity oracle for magnitudes",
}

NOT_APPLICABLE = {}
