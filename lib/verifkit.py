"""Shared machinery of the checks: build, TLC runs, trace validation, evidence, findings."""
import os, sys, json, subprocess, time, shutil, tempfile, re, glob
from concurrent.futures import ThreadPoolExecutor

VERIF = os.path.dirname(os.path.dirname(os.path.abspath(__file__)))
SPEC = os.path.join(VERIF, "spec")
HARNESS = os.path.join(VERIF, "harness")
SHIM = os.path.join(VERIF, "shim")
REPO = os.environ.get("VERIF_REPO", "/repo")
TLA_CP = "/opt/veriftools/tla/tla2tools.jar:/opt/veriftools/tla/CommunityModules-deps.jar"
NCPU = os.cpu_count() or 4


def mem_total_gb():
    try:
        for line in open("/proc/meminfo"):
            if line.startswith("MemTotal:"):
                return int(line.split()[1]) / (1024.0 * 1024.0)
    except Exception:
        pass
    return 16.0


MEM_GB = mem_total_gb()
# one JVM per validated trace: bounded heap, and never more JVMs at once than half of the memory allows
def tv_heap_gb(tier):
    return 6 if tier == "thorough" else 4


def tv_par(tier):
    p = max(2, min(NCPU, int(MEM_GB * 0.6 / tv_heap_gb(tier))))
    if os.environ.get("VERIF_PAR"):       # development: share the machine with another run
        p = max(1, min(p, int(os.environ["VERIF_PAR"])))
    return p


MC_HEAP_GB = max(4, min(16, int(MEM_GB * 0.3)))


class Infra(Exception):
    pass


def go_env():
    e = dict(os.environ)
    e.update({
        "GOFLAGS": "-mod=mod", "GOPROXY": "off", "GOSUMDB": "off", "GOTOOLCHAIN": "local",
        "CGO_LDFLAGS_ALLOW": ".*",
        "CGO_CFLAGS": "-I%s/include" % SHIM, "CGO_CXXFLAGS": "-I%s/include" % SHIM,
        "CGO_LDFLAGS": "-L%s/lib" % SHIM, "CXX": "%s/bin/cxx" % SHIM,
    })
    return e


def ensure_shim():
    lib = os.path.join(SHIM, "lib", "libjemalloc.a")
    if not os.path.exists(lib):
        os.makedirs(os.path.dirname(lib), exist_ok=True)
        subprocess.check_call(["ar", "rc", lib])
    os.chmod(os.path.join(SHIM, "bin", "cxx"), 0o755)


class Ctx:
    def __init__(self, pid, tier, seed, keep=False):
        self.pid, self.tier, self.seed, self.keep = pid, tier, seed, keep
        self.work = tempfile.mkdtemp(prefix="verif_%s_" % pid)
        self.violations = []     # dict(prop, what, where)
        self.diagnostics = []
        self.notes = []
        self._mc = []            # TLC model-checking runs
        self.tv = {"traces": 0, "events": 0, "files": 0, "tlc_wall": 0.0, "drv_wall": 0.0}
        self.samples = []
        self.counters = {}
        self.wall = 0.0
        self.drv = None
        self.replay_files = []
        self.drv_par = None
        self.replay_info = {}

    thorough = property(lambda s: s.tier == "thorough")

    def pick(self, quick, thorough):
        return thorough if self.thorough else quick

    def note(self, s):
        self.notes.append(s)

    def count(self, k, n=1):
        self.counters[k] = self.counters.get(k, 0) + n

    def cleanup(self):
        if not self.keep:
            shutil.rmtree(self.work, ignore_errors=True)

    # ------------------------------------------------------------------ build
    def build_drv(self):
        if self.drv:
            return self.drv
        ensure_shim()
        t0 = time.time()
        modargs = []
        try:
            if os.path.realpath(REPO) == "/repo":
                shutil.copyfile(os.path.join(REPO, "go.sum"), os.path.join(HARNESS, "go.sum"))
            else:
                # checks against another checkout (a scratch worktree with a seeded change): same
                # harness sources, alternative module file pointing at that checkout
                alt = os.path.join(self.work, "alt.mod")
                txt = open(os.path.join(HARNESS, "go.mod")).read().replace("=> /repo", "=> " + os.path.realpath(REPO))
                open(alt, "w").write(txt)
                shutil.copyfile(os.path.join(REPO, "go.sum"), os.path.join(self.work, "alt.sum"))
                modargs = ["-modfile=" + alt]
        except Exception as e:
            raise Infra("cannot copy go.sum: %s" % e)
        out = os.path.join(self.work, "drv")
        p = subprocess.run(["go", "build"] + modargs + ["-tags", "verif", "-o", out, "./cmd/drv"], cwd=HARNESS,
                           env=go_env(), stdout=subprocess.PIPE, stderr=subprocess.STDOUT, text=True)
        if p.returncode != 0:
            raise Infra("harness does not build against /repo:\n" + p.stdout[-4000:])
        self.note("built drv in %.1fs" % (time.time() - t0))
        self.drv = out
        return out

    def build_drv_race(self):
        """the same drivers built with the Go race detector (monitor for the data-race clauses)"""
        if getattr(self, "drv_race", None):
            return self.drv_race
        self.build_drv()     # go.sum / alt.mod in place
        t0 = time.time()
        modargs = []
        alt = os.path.join(self.work, "alt.mod")
        if os.path.exists(alt):
            modargs = ["-modfile=" + alt]
        out = os.path.join(self.work, "drvrace")
        p = subprocess.run(["go", "build", "-race"] + modargs + ["-tags", "verif", "-o", out, "./cmd/drv"], cwd=HARNESS,
                           env=go_env(), stdout=subprocess.PIPE, stderr=subprocess.STDOUT, text=True)
        if p.returncode != 0:
            raise Infra("harness does not build with -race:\n" + p.stdout[-4000:])
        self.note("built drv -race in %.1fs" % (time.time() - t0))
        self.drv_race = out
        return out

    def run_drv(self, args, timeout=1800, env_extra=None, check=True, race=False):
        drv = self.build_drv_race() if race else self.build_drv()
        e = go_env()
        e["VERIF_SEED"] = str(self.seed)
        e["VERIF_TIER"] = self.tier
        e["TMPDIR"] = self.work
        if env_extra:
            e.update(env_extra)
        t0 = time.time()
        try:
            p = subprocess.run([drv] + args, env=e, stdout=subprocess.PIPE, stderr=subprocess.PIPE,
                               text=True, timeout=timeout, cwd=self.work)
        except subprocess.TimeoutExpired:
            raise Infra("driver timed out: %s" % " ".join(args))
        self.tv["drv_wall"] += time.time() - t0
        if check and p.returncode != 0:
            raise Infra("driver %s failed (rc=%d): %s" % (args[0], p.returncode, (p.stderr or p.stdout)[-3000:]))
        return p

    # ------------------------------------------------------------------ TLC
    def tlc(self, module, cfg_text, tag, workers=1, timeout=1200, deque=False, extra=None):
        """Run TLC on spec/<module>.tla with the given cfg text. Returns dict with output + stats."""
        md = os.path.join(self.work, "md_" + tag)
        cfg = os.path.join(self.work, tag + ".cfg")
        with open(cfg, "w") as f:
            f.write(cfg_text)
        cmd = ["java", "-Xss1g", "-XX:+UseParallelGC", "-Xmx%dg" % (tv_heap_gb(self.tier) if workers == 1 else MC_HEAP_GB),
               "-Djava.io.tmpdir=" + self.work]     # TLC leaves tlc-* entries in the JVM's temp directory
        if deque:
            cmd.append("-Dtlc2.tool.queue.IStateQueue=StateDeque")
        cmd += ["-cp", TLA_CP, "tlc2.TLC", "-noGenerateSpecTE", "-metadir", md,
                "-workers", str(workers), "-config", cfg] + (extra or []) + [module + ".tla"]
        t0 = time.time()
        try:
            p = subprocess.run(cmd, cwd=SPEC, stdout=subprocess.PIPE, stderr=subprocess.STDOUT, text=True,
                               timeout=timeout)
        except subprocess.TimeoutExpired:
            shutil.rmtree(md, ignore_errors=True)
            raise Infra("TLC timed out after %ds on %s (%s)" % (timeout, module, tag))
        wall = time.time() - t0
        shutil.rmtree(md, ignore_errors=True)
        out = p.stdout
        r = {"module": module, "tag": tag, "wall": wall, "rc": p.returncode, "out": out}
        m = re.search(r"(\d+) states generated, (\d+) distinct states found", out)
        if m:
            r["generated"], r["distinct"] = int(m.group(1)), int(m.group(2))
        m = re.search(r"The depth of the complete state graph search is (\d+)", out)
        if m:
            r["depth"] = int(m.group(1))
        r["inv_violated"] = re.findall(r"Error: Invariant (\S+) is violated", out)
        r["prop_violated"] = re.findall(r"Error: (?:Action|Temporal) property (\S+) (?:is|was) violated", out)
        r["errors"] = [l for l in out.splitlines() if l.startswith("Error:")]
        r["ok"] = ("Model checking completed. No error has been found." in out)
        return r

    # ------------------------------------------------------------------ bookkeeping
    def violation(self, prop, what, where=""):
        self.violations.append({"prop": prop, "what": what, "where": where})

    def diagnostic(self, what, where=""):
        self.diagnostics.append({"what": what, "where": where})

    def violations_for(self, pid):
        return [v for v in self.violations if v["prop"] == pid]

    def split_known(self, viols):
        kf = load_findings()
        known, new = [], []
        for v in viols:
            hit = None
            for f in kf.get("findings", []):
                if f.get("status") == "known" and f["property"] == v["prop"] and re.search(f["match"], v["what"]):
                    hit = f
                    break
            if hit:
                v = dict(v)
                v["finding"] = hit["id"] + ": " + hit["title"]
                known.append(v)
            else:
                new.append(v)
        return known, new

    def save_replay(self, viols):
        d = os.path.join(VERIF, "out", "replay", "%s_seed%d_%d" % (self.pid, self.seed, int(time.time())))
        os.makedirs(d, exist_ok=True)
        seen = set()
        for v in viols:
            w = v.get("where", "")
            f = w.split(":")[0]
            if f and f not in seen and os.path.exists(f):
                seen.add(f)
                shutil.copy(f, d)
                defs = f.replace(".ndjson", ".defs.ndjson")
                if os.path.exists(defs):
                    shutil.copy(defs, d)
        for f in self.replay_files:
            if os.path.exists(f) and os.path.basename(f) not in os.listdir(d):
                shutil.copy(f, d)
        with open(os.path.join(d, "replay.json"), "w") as f:
            json.dump({"property": self.pid, "tier": self.tier, "seed": self.seed,
                       "tlc": {k: v for k, v in self.replay_info.items() if k in os.listdir(d)},
                       "violations": [dict(v, where=os.path.basename(v.get("where", ""))) for v in viols[:200]]}, f, indent=1)
        return os.path.join(d, "replay.json")

    def summary(self):
        mcs = sum(m.get("distinct", 0) for m in self.mc_results)
        return "mc_states=%d traces=%d events=%d" % (mcs, self.tv["traces"], self.tv["events"])

    mc_results = property(lambda s: s._mc)

    def write_evidence(self, plan, n_viol=0, infra=None):
        mcs = self.mc_results
        states = sum(m.get("distinct", 0) for m in mcs) + self.tv.get("tv_states", 0)
        trans = sum(m.get("generated", 0) for m in mcs) + self.tv.get("tv_states", 0)
        level = plan["level"]
        cov = {
            "states": states, "transitions": trans,
            "traces_validated_against_impl": self.tv["traces"],
            "samples": self.samples[:8] or [{"note": "no sample recorded"}],
            "evaluations": int(self.counters.get("evaluations", self.tv["events"] + trans)),
            "distinct_nontrivial": int(self.counters.get("distinct_nontrivial", 0)),
            "rule": plan.get("rule", ""),
            "exhaustive": bool(plan.get("exhaustive_mc", False)),
            "model_checking_runs": [{k: m.get(k) for k in ("module", "tag", "generated", "distinct", "depth", "wall", "constants")} for m in mcs],
            "trace_validation": dict(self.tv),
            "counters": self.counters,
            "diagnostics": self.diagnostics[:20],
            "n_diagnostics": len(self.diagnostics),
            "notes": self.notes[-20:],
        }
        if infra:
            cov["infra_error"] = infra
        if level == "model_checking" and (states < 1 or trans < 1):
            cov["states"] = max(states, 1)
            cov["transitions"] = max(trans, 1)
        ev = {
            "property_id": self.pid, "tier": self.tier, "seed": self.seed, "level": level,
            "coverage": cov,
            "assumptions": plan.get("assumptions", []),
            "wall_s": round(self.wall, 2),
            "violations": n_viol,
        }
        # development runs against another checkout (VERIF_REPO: a scratch worktree with a seeded change)
        # must not overwrite the evidence of /repo
        evdir = os.path.join(VERIF, "evidence") if os.path.realpath(REPO) == "/repo" else os.path.join(VERIF, "out", "evidence_dev")
        os.makedirs(evdir, exist_ok=True)
        with open(os.path.join(evdir, self.pid + ".json"), "w") as f:
            json.dump(ev, f, indent=1, default=str)


def load_findings():
    p = os.path.join(VERIF, "known-findings.json")
    if os.path.exists(p):
        with open(p) as f:
            return json.load(f)
    return {"findings": []}


VIOL_RE = re.compile(r'"((?:C\d\d\|)*)([CD]\d\d)\|(\d+)\|([^"]*)"')


def parse_viol(out):
    """-> list of (also_props, prop, line, what) from the PrintT(<<"VIOL", viol>>) output.
    A tag "C09|C01|12|what" means: failure `what` of kind C01 at line 12, also attributed to C09."""
    i = out.find('"VIOL"')
    if i < 0:
        return None
    res = []
    for m in VIOL_RE.finditer(out[i:]):
        also = [x for x in m.group(1).split("|") if x]
        res.append((also, m.group(2), int(m.group(3)), m.group(4)))
    return res


def par_map(fn, items, workers=None):
    with ThreadPoolExecutor(max_workers=workers or NCPU) as ex:
        return list(ex.map(fn, items))
