"""Per-property plans: which specification runs and which conformance runs decide each property."""
import os, re, json, time, glob, shutil
from verifkit import *


# ----------------------------------------------------------------------------- generic stages
def mc_stage(module, cfg, quick=None, thorough=None, workers=NCPU, timeout=3000, tag=None):
    """Exhaustive TLC run of a bounded configuration of the specification itself."""
    def stage(ctx):
        consts = dict(ctx.pick(quick or {}, thorough or quick or {}))
        text = cfg
        for k, v in consts.items():
            text = text.replace("@%s@" % k, str(v))
        r = ctx.tlc(module, text, tag or ("mc_" + module), workers=workers, timeout=timeout)
        r["constants"] = consts
        ctx.mc_results.append(r)
        if not r["ok"]:
            # the design itself fails its property: a defect of the specification, not a verdict on the code
            tail = "\n".join(r["out"].splitlines()[-40:])
            raise Infra("model checking of %s failed (%s)\n%s" % (module, r["inv_violated"] or r["errors"][:3], tail))
        ctx.note("MC %s %s: %s distinct states in %.1fs" % (module, consts, r.get("distinct"), r["wall"]))
    return stage


def thorough_only(stage):
    def st(ctx):
        if ctx.thorough:
            stage(ctx)
    return st


def scan_trace(path, ctx):
    """cheap statistics + samples from an ndjson trace"""
    kinds = {}
    distinct = set()
    n = 0
    with open(path) as f:
        for i, line in enumerate(f):
            n += 1
            m = re.match(r'\{"a":"([a-z_]+)"', line)
            k = m.group(1) if m else "?"
            kinds[k] = kinds.get(k, 0) + 1
            if k not in ("universe",) and len(line) < 400000:
                head = line[:500] + line[-300:]
                key = re.findall(r'"(?:actual|current|q|s|e|query|idx|first|v|n|i|pref|code|index|min|max|rep|id|was|before|page)":(-?\d+)', head)
                strs = re.findall(r'"(?:scenario|kind|shape|path|method|what|side|mode|host|t|resp)":"([^"]{0,60})"', head)
                distinct.add((k,) + tuple(key[:8]) + tuple(strs[:4]))
            if len(ctx.samples) < 6 and k not in ("universe", "reset") and i % 97 == 5:
                ctx.samples.append({"trace": os.path.basename(path), "line": i + 1, "event": line[:600]})
    return n, kinds, distinct


BALLOON_CFG = """SPECIFICATION Spec
CONSTANTS
  TraceFile = "%(trace)s"
  DefsFile = "%(defs)s"
  NB = 256
  CL = 232
  KeyBits <- TraceKeyBits
  KeyPre <- TraceKeyPre
  AllKeys <- TraceAllKeys
INVARIANT Report
POSTCONDITION Accepted
VIEW View
CHECK_DEADLOCK FALSE
"""


SIMPLE_TRACE_CFG = """SPECIFICATION Spec
CONSTANTS
  TraceFile = "%(trace)s"
INVARIANT Report
POSTCONDITION Accepted
VIEW View
CHECK_DEADLOCK FALSE
"""


def driver_crash(ctx, p, args):
    """A driver that hosts real nodes died: if QED code panicked, that is real behaviour, not infrastructure."""
    err = (p.stderr or "") + (p.stdout or "")
    if ("panic:" in err or "fatal error:" in err or "SIGABRT" in err or "Assertion" in err or "SIGSEGV" in err or "SIGBUS" in err
            or "signal arrived during cgo execution" in err) and ("github.com/bbva/qed/" in err or "rocksdb" in err.lower()):
        lines = [x for x in err.splitlines() if x.startswith("panic:") or "fatal error" in x or "Assertion" in x or x.startswith("SIGSEGV") or x.startswith("SIGBUS")]
        first = (lines[0] if lines else err.splitlines()[0])[:300]
        dump = os.path.join(ctx.work, "crash_%d.txt" % len(ctx.replay_files))
        with open(dump, "w") as f:
            f.write(" ".join(args) + "\n" + err[-20000:])
        ctx.replay_files.append(dump)
        ctx.violation(ctx.pid, "process hosting the node(s) crashed: " + first, dump)
        return True
    return False


def parse_race_log(path, repo):
    """-> list of (is_qed, [(file, line), (file, line)], text). A report counts against QED only when both
    conflicting accesses are in QED's own (non-hook) source and neither call stack passes through a
    verification hook (the hooks read node state from outside, which production code never does)."""
    out = []
    txt = open(path, errors="replace").read()
    for blk in txt.split("=================="):
        if "DATA RACE" not in blk:
            continue
        accs, cur = [], None
        for line in blk.splitlines():
            if re.match(r"^(Read|Write|Previous read|Previous write|Atomic|Previous atomic)[^:]* by (main )?goroutine", line):
                cur = []
                accs.append(cur)
                continue
            if re.match(r"^Goroutine \d+", line):
                cur = None
                continue
            if cur is not None:
                m = re.match(r"^\s+(/\S+\.go):(\d+)", line)
                if m:
                    cur.append((m.group(1), int(m.group(2))))
        if len(accs) < 2 or not accs[0] or not accs[1]:
            continue

        def qed(f):
            return f[0].startswith(repo + "/") and "verif" not in os.path.basename(f[0])
        hook = any("verif" in os.path.basename(f[0]) and f[0].startswith(repo + "/") for a in accs[:2] for f in a)
        out.append((qed(accs[0][0]) and qed(accs[1][0]) and not hook, [accs[0][0], accs[1][0]], blk.strip()[:6000]))
    return out


def race_stage(runs):
    """runs: list of (driver, extra_args). Thorough tier only."""
    def stage(ctx):
        """The same real executions under the Go race detector: a report whose two conflicting accesses are both in
        QED's own source (no verification hook on either stack) falsifies the data-race clause"""
        if not ctx.thorough:
            return
        ctx.build_drv_race()
        repo = os.path.realpath(REPO)
        logdir = os.path.join(ctx.work, "race")
        os.makedirs(logdir, exist_ok=True)
        seen = set()
        for i, (driver, extra) in enumerate(runs):
            outdir = os.path.join(ctx.work, "race_out_%d" % i)
            os.makedirs(outdir, exist_ok=True)
            a = [driver, "-out", outdir, "-fi", "0", "-files", "1", "-tier", "quick", "-seed", str(ctx.seed)] + list(extra)
            try:
                p = ctx.run_drv(a, timeout=1500, check=False, race=True,
                                env_extra={"GORACE": "halt_on_error=0 exitcode=0 log_path=%s/r%d" % (logdir, i)})
            except Infra as e:
                ctx.note("race run of %s did not finish: %s" % (driver, str(e)[:200]))
                continue
            ctx.count("race_runs")
            if p.returncode != 0:
                if driver_crash(ctx, p, a):
                    continue
                ctx.note("race run of %s %s ended with rc=%d (slow under the detector): not evaluated" % (driver, " ".join(extra), p.returncode))
                continue
            for lf in sorted(glob.glob(os.path.join(logdir, "r%d.*" % i))):
                for is_qed, tops, text in parse_race_log(lf, repo):
                    ctx.count("race_reports")
                    if not is_qed:
                        ctx.count("race_reports_harness_or_hook")
                        continue
                    key = tuple(sorted("%s:%d" % (os.path.relpath(f, repo), ln) for f, ln in tops))
                    if key in seen:
                        continue
                    seen.add(key)
                    dump = os.path.join(ctx.work, "race_%d.txt" % len(ctx.replay_files))
                    with open(dump, "w") as f:
                        f.write(" ".join(a) + "\n" + text)
                    ctx.replay_files.append(dump)
                    ctx.violation(ctx.pid, "data race between %s and %s (%s)" % (key[0], key[-1], driver), dump)
    return stage


def trace_files_stage(ctx, driver, prefix, nfiles, module="Trace_Balloon", cfg=None, extra_args=None, spec="Spec", subdir=None):
    """run `drv <driver>` nfiles times in parallel, validate every trace with TLC, collect VIOL tags"""
    cfg = cfg or BALLOON_CFG
    outdir = os.path.join(ctx.work, subdir or prefix)
    os.makedirs(outdir, exist_ok=True)
    ctx.build_drv()

    def gen(fi):
        a = [driver, "-out", outdir, "-fi", str(fi), "-files", "1", "-tier", ctx.tier, "-seed", str(ctx.seed)] + (extra_args or [])
        p = ctx.run_drv(a, timeout=3000, check=False)
        p.args_ = a
        return p
    crashed = 0
    for p in par_map(gen, range(nfiles), workers=ctx.drv_par):
        if p.returncode != 0:
            if driver_crash(ctx, p, p.args_):
                crashed += 1
                continue
            raise Infra("driver %s failed (rc=%d): %s" % (driver, p.returncode, (p.stderr or p.stdout)[-3000:]))
        try:
            st = json.loads(p.stdout.strip().splitlines()[-1])
            for k, v in st.items():
                ctx.count("drv_" + k, v)
        except Exception:
            pass
    files = sorted(glob.glob(os.path.join(outdir, prefix + "_*[0-9].ndjson")))
    if crashed:
        # traces of crashed runs are incomplete: the crash itself is the finding
        return
    if len(files) != nfiles:
        raise Infra("%s driver produced %d of %d traces" % (driver, len(files), nfiles))

    def validate(path):
        defs = path.replace(".ndjson", ".defs.ndjson")
        tag = "tv_" + os.path.basename(path).split(".")[0]
        cfgtext = (cfg % {"trace": path, "defs": defs}).replace("SPECIFICATION Spec", "SPECIFICATION " + spec)
        ctx.replay_info[os.path.basename(path)] = {"module": module, "cfg": cfg.replace("SPECIFICATION Spec", "SPECIFICATION " + spec)}
        r = ctx.tlc(module, cfgtext, tag, workers=1, timeout=ctx.pick(1500, 5400))
        return path, r
    t1 = time.time()
    results = par_map(validate, files, workers=tv_par(ctx.tier))
    ctx.tv["tlc_wall"] += time.time() - t1
    distinct = set()
    for path, r in results:
        n, kinds, dist = scan_trace(path, ctx)
        distinct |= dist
        ctx.tv["files"] += 1
        ctx.tv["traces"] += kinds.get("reset", 0)
        ctx.tv["events"] += n
        ctx.tv["tv_states"] = ctx.tv.get("tv_states", 0) + r.get("distinct", 0)
        for k, v in kinds.items():
            ctx.count("ev_" + k, v)
        viol = parse_viol(r["out"])
        if viol is None or r.get("depth") not in (n, n + 1):
            out = r["out"]
            evalerr = [x for x in out.splitlines() if ("Attempted to" in x or "was not in the domain" in x or "nonexistent field" in x
                                                        or "which is not in the domain" in x or "out of bounds" in x)]
            if evalerr and r.get("depth") and "OutOfMemory" not in out:
                # the real code produced an event the specification cannot even evaluate (a value outside every
                # domain the model knows): the behaviour is not a behaviour of the specification
                d = r.get("depth")
                ctx.violation(ctx.pid, "behaviour not explainable by the specification (TLC evaluation error: %s)" % evalerr[0].strip()[:160],
                              "%s:%d" % (path, d + 1))
                continue
            tail = "\n".join(out.splitlines()[-25:])
            raise Infra("trace %s not fully consumed by %s (depth %s of %d)\n%s" % (path, module, r.get("depth"), n, tail))
        for also, prop, line, what in viol:
            where = "%s:%d" % (path, line)
            if prop.startswith("D"):
                if not also:
                    ctx.diagnostic(prop + " " + what, where)
                continue
            if not also:
                ctx.violation(prop, what, where)
            for a in also:
                ctx.violation(a, {"C08": "after reopen/restart: ", "C07": "after crash recovery: ", "C09": "after state transfer: ", "C10": "during an insertion: ",
                                  "C06": "on a replica: "}.get(a, "") + what, where)
    ctx.count("distinct_nontrivial", len(distinct))
    ctx.count("evaluations", ctx.tv["events"])


CLUSTER_CFG = BALLOON_CFG.replace("VIEW View", "VIEW CView")


def cluster_tv(scenario, quick_files, thorough_files):
    def stage(ctx):
        ctx.drv_par = 4      # real clusters: keep raft timeouts meaningful
        trace_files_stage(ctx, "cluster", "cluster", ctx.pick(quick_files, thorough_files), module="Trace_Cluster",
                          cfg=CLUSTER_CFG, extra_args=["-scenario", scenario], spec="CSpec", subdir="cluster_" + scenario)
        ctx.drv_par = None
    return stage


def crash_tv(mode, quick_files, thorough_files):
    def stage(ctx):
        ctx.drv_par = 8
        trace_files_stage(ctx, "crash", "crash", ctx.pick(quick_files, thorough_files), module="Trace_Cluster",
                          cfg=CLUSTER_CFG, extra_args=["-mode", mode], spec="CSpec", subdir="crash_" + mode)
        ctx.drv_par = None
    return stage


def crashbig_tv(quick_files, thorough_files):
    def stage(ctx):
        """SIGKILL + restart + log replay of a child-process node holding > 1000 events (the hyper cache table spans
        pages of the warm-up that runs at start)"""
        ctx.drv_par = 4
        trace_files_stage(ctx, "crash", "crash", ctx.pick(quick_files, thorough_files), module="Trace_Cluster",
                          cfg=CLUSTER_CFG, extra_args=["-mode", "kill", "-big"], spec="CSpec", subdir="crash_big")
        ctx.drv_par = None
    return stage


def api_tv_stage(ctx):
    """request matrix against the real HTTP handlers over a child-process node -> Trace_Api.tla"""
    ctx.drv_par = 8
    trace_files_stage(ctx, "api", "api", ctx.pick(4, 8), module="Trace_Api", cfg=SIMPLE_TRACE_CFG)
    ctx.drv_par = None


TOPO_TRACE_CFG = SIMPLE_TRACE_CFG.replace('TraceFile = "%(trace)s"', 'TraceFile = "%(trace)s"\n  ReuseKeepsNodeType = FALSE')


def clienttopo_tv_stage(ctx):
    """one real step of the client's endpoint selection per specification transition -> Trace_ClientTopology.tla"""
    trace_files_stage(ctx, "clienttopo", "clienttopo", ctx.pick(8, 16), module="Trace_ClientTopology", cfg=TOPO_TRACE_CFG)


def clientcalls_tv_stage(ctx):
    """real HTTPClient call loops against a scripted cluster -> Trace_Client.tla"""
    trace_files_stage(ctx, "clientcalls", "clientcalls", ctx.pick(8, 16), module="Trace_Client", cfg=SIMPLE_TRACE_CFG)


mc_clienttopo = mc_stage("MC_ClientTopology", """SPECIFICATION Spec
CONSTANTS
  MaxOps = @MaxOps@
  ReuseKeepsNodeType = FALSE
INVARIANT Safe
INVARIANT Fair
INVARIANT PrimaryWellFormed
CHECK_DEADLOCK FALSE
""", quick={"MaxOps": 4}, thorough={"MaxOps": 5}, timeout=6000)


def sender_tv_stage(ctx):
    """real Sender + real ed25519 signer on a real agent bus -> Trace_Sender.tla"""
    trace_files_stage(ctx, "sender", "sender", ctx.pick(8, 16), module="Trace_Sender", cfg=SIMPLE_TRACE_CFG)


mc_sender = mc_stage("Sender", """SPECIFICATION FairSpec
CONSTANTS
  Batchers = {b1, b2, b3}
  BatchSize = 2
  MaxSnaps = @MaxSnaps@
INVARIANT BatchBound
INVARIANT ExactlyOnce
INVARIANT AllSigned
PROPERTY EventuallyPublished
CHECK_DEADLOCK FALSE
""", quick={"MaxSnaps": 5}, thorough={"MaxSnaps": 7}, timeout=6000)


def gossip_tv_stage(ctx):
    """real gossip agents over loopback memberlist -> Trace_Gossip.tla"""
    ctx.drv_par = 4
    trace_files_stage(ctx, "gossip", "gossip", ctx.pick(3, 8), module="Trace_Gossip", cfg=SIMPLE_TRACE_CFG)
    ctx.drv_par = None


def gossiptopo_tv_stage(ctx):
    """concurrent Update/Delete/Get/Each on the real Topology -> Trace_Gossip.tla"""
    ctx.drv_par = 2
    trace_files_stage(ctx, "gossiptopo", "gossiptopo", ctx.pick(2, 4), module="Trace_Gossip", cfg=SIMPLE_TRACE_CFG)
    ctx.drv_par = None


mc_gossip = mc_stage("MC_Gossip", """SPECIFICATION Spec
CONSTANTS
  Agents = {@Agents@}
  RoleOf <- MCRoleOf
  Batches = {"b1"}
  TTL0s <- @TTL0s@
  MaxDup = @MaxDup@
  SendChecksZeroOnly = FALSE
INVARIANT NeverSelf
INVARIANT NeverExhausted
INVARIANT OncePerAgent
INVARIANT Bounded
CHECK_DEADLOCK FALSE
""", quick={"Agents": '"a1", "m1", "p1"', "TTL0s": "TTLsA", "MaxDup": 1},
    thorough={"Agents": '"a1", "a2", "m1", "p1"', "TTL0s": "TTLsA", "MaxDup": 2}, timeout=6000)


def agents_tv_stage(ctx):
    """real auditor / monitor / publisher tasks in a real agent against a real node -> Trace_Agents.tla"""
    ctx.drv_par = 4
    trace_files_stage(ctx, "agents", "agents", ctx.pick(4, 8), module="Trace_Agents", cfg=SIMPLE_TRACE_CFG)
    ctx.drv_par = None


def crashcluster_tv(nq, nt):
    def stage(ctx):
        """3 child-process nodes, leader SIGKILLed mid-insertion, re-election, restart, catch-up -> Trace_Cluster.tla"""
        ctx.drv_par = 3
        trace_files_stage(ctx, "crashcluster", "crashcluster", ctx.pick(nq, nt), module="Trace_Cluster", cfg=CLUSTER_CFG, spec="CSpec")
        ctx.drv_par = None
    return stage


mc_restore = mc_stage("Restore", """SPECIFICATION Spec
CONSTANTS
  MaxOldIdx = @MaxOldIdx@
  MaxOldVer = @MaxOldVer@
  MaxNew = @MaxNew@
  ResetIndexOnBootstrap = TRUE
INVARIANT NothingDiscarded
PROPERTY VersionKept
CHECK_DEADLOCK FALSE
""", quick={"MaxOldIdx": 6, "MaxOldVer": 4, "MaxNew": 4}, thorough={"MaxOldIdx": 12, "MaxOldVer": 8, "MaxNew": 8})


mc_client = mc_stage("Client", """SPECIFICATION Spec
CONSTANTS
  Urls = {@Urls@}
  Health = TRUE
  Discovery = TRUE
  Prefs = {0, 1, 2, 3, 4}
  DiscoverMarksDead = TRUE
  ReuseKeepsNodeType = FALSE
  Bound = @Bound@
INVARIANT BoundedCall
CHECK_DEADLOCK FALSE
""", quick={"Urls": '"a", "b"', "Bound": 12}, thorough={"Urls": '"a", "b", "c"', "Bound": 16}, timeout=6000)


def adversary_tv_stage(ctx):
    """Altered / recombined / forged answers -> real JSON decoder + real verifier -> Trace_Balloon.tla"""
    trace_files_stage(ctx, "adversary", "adv", ctx.pick(8, 16))


def balloon_tv(nq, nt):
    def stage(ctx):
        """Real Balloon (RocksDB / B+ store, JSON wire, real verifiers) -> traces -> Trace_Balloon.tla"""
        trace_files_stage(ctx, "balloon", "balloon", ctx.pick(nq, nt))
    return stage


balloon_tv_stage = balloon_tv(10, 12)


def wire_tv_stage(ctx):
    """identity oracle on the real encoders (magnitudes, byte-level) -> Trace_Wire.tla"""
    trace_files_stage(ctx, "wire", "wire", ctx.pick(4, 16), module="Trace_Wire", cfg=SIMPLE_TRACE_CFG)


HISTORY_CFG = """SPECIFICATION Spec
CONSTANT MaxN = @MaxN@
INVARIANT IncrementalEqualsCanonical
INVARIANT RootDependsExactlyOnPrefix
INVARIANT MembershipComplete
INVARIANT MembershipSound
INVARIANT IncrementalComplete
INVARIANT IncrementalSound
INVARIANT ForkAfterStartLinks
CHECK_DEADLOCK FALSE
"""

mc_history = mc_stage("MC_History", HISTORY_CFG, quick={"MaxN": 12}, thorough={"MaxN": 40})

BALLOON_ASSUME = [
    "TLC, SANY and the CommunityModules Json module",
    "symbolic hasher + term encoder of the harness (hash-consing keyed by the argument list; cross-checked by evaluating terms with real SHA-256)",
    "hashing is modelled as a free (injective) constructor: results are exact up to SHA-256 collisions",
    "RocksDB 7.8.3 (Debian) through the build shim instead of the vendored 6.x",
]


def plan(level, stages, rule, note="", exhaustive_mc=True):
    return {"level": level, "stages": stages, "rule": rule, "assumptions": BALLOON_ASSUME + ([note] if note else []),
            "exhaustive_mc": exhaustive_mc}


RULE_BALLOON = ("MC: every tree size up to MaxN, every (index, version)/(start, end) pair, every single alteration, exhaustive. "
                "TV: seeded scenarios on the real Balloon (14 structured digests with common prefixes on both sides of every "
                "batch/cache boundary + random ones; random Add/AddBulk splits, duplicates, reopen points, RocksDB and B+ store); "
                "a case is distinct by (event kind, versions involved); non-trivial = add/member/incr events (resets excluded)")




def store_tv_stage(ctx):
    """random operation sequences on BPlusTreeStore and RocksDBStore -> Trace_Store.tla"""
    trace_files_stage(ctx, "store", "store", ctx.pick(8, 16), module="Trace_Store", cfg=SIMPLE_TRACE_CFG)


def logstore_tv_stage(ctx):
    """random operation sequences on the real raft log store -> Trace_LogStore.tla"""
    trace_files_stage(ctx, "logstore", "logstore", ctx.pick(8, 16), module="Trace_LogStore", cfg=SIMPLE_TRACE_CFG)


mc_store = mc_stage("MC_Store", """SPECIFICATION Spec
CONSTANT MaxOps = @MaxOps@
INVARIANT ScanLemma
INVARIANT LastLemma
INVARIANT RangeLemma
PROPERTY Isolation
CHECK_DEADLOCK FALSE
""", quick={"MaxOps": 2}, thorough={"MaxOps": 3})

mc_logstore = mc_stage("MC_LogStore", """SPECIFICATION Spec
CONSTANTS
  N = @N@
  MaxOps = @MaxOps@
INVARIANT FirstLast
INVARIANT KeyIsIndex
PROPERTY DeleteExact
PROPERTY LastStoreWins
CHECK_DEADLOCK FALSE
""", quick={"N": 3, "MaxOps": 3}, thorough={"N": 4, "MaxOps": 4})

RULE_STORE = ("MC: the sorted-map model with 3 tables x 4 keys x 2 values, all batches of <= 2 mutations, MaxOps batches, exhaustive "
              "(scan/last/range lemmas, table isolation). TV: seeded operation sequences (atomic multi-table batches with overwrites, "
              "get, inclusive ranges incl. empty/inverted bounds, paged full scans with page sizes 1..7 and 1000, last-key, close+reopen) "
              "on both back-ends with keys from {empty, 0x00, 0xff.., table-prefix look-alikes, 10-byte history keys, 34-byte hyper keys}; "
              "every reply compared with the model by TLC; distinct = (operation, arguments)")
RULE_LOGSTORE = ("MC: indexes 1..N, 2 terms, all store/store-2/delete-range sequences up to MaxOps, exhaustive. TV: seeded sequences of "
                 "store-one/many (appends, overwrites, sparse), get (fresh and reused destination), delete-range (single, empty, all, "
                 "overlapping), first/last, set/get/uint64 and reopen around the 1-, 2- and 3-byte index boundaries on the real RocksDB log store")

MCB_CFG = """SPECIFICATION Spec
CONSTANTS
  MaxLen = @MaxLen@
  MaxBulk = 2
  Pinned = FALSE
  NB = 8
  CL = 4
  AllKeys <- U
  KeyBits <- Bits8T
INVARIANT Complete
INVARIANT SearchTLemma
INVARIANT HyperMapSane
INVARIANT WireFaithful
INVARIANT Sound
CHECK_DEADLOCK FALSE
"""
mc_balloon = mc_stage("MC_Balloon", MCB_CFG, quick={"MaxLen": 2}, thorough={"MaxLen": 3}, timeout=6000)

MCH_CFG = """SPECIFICATION Spec
CONSTANTS
  MaxLen = @MaxLen@
  MaxBulk = 3
  NB = 8
  CL = 4
  AllKeys <- U
  KeyBits <- Bits8T
INVARIANT TrieIsCanonicalRoot
INVARIANT TrieSearchIsSearch
INVARIANT TrieCounts
CHECK_DEADLOCK FALSE
"""
mc_hyper = mc_stage("MC_Hyper", MCH_CFG, quick={"MaxLen": 4}, thorough={"MaxLen": 5}, timeout=3000)

BIG_CFG = BALLOON_CFG.replace("SPECIFICATION Spec", "SPECIFICATION BSpec")


def balloonbig_tv(nq, nt):
    def stage(ctx):
        """Real Balloon over RocksDB at scale (>1000 hyper cache tiles, reopen on / next to the page boundaries of the cache
        warm-up) -> traces -> Trace_BalloonBig.tla (incremental hyper tree, shown canonical by MC_Hyper)"""
        trace_files_stage(ctx, "balloonbig", "big", ctx.pick(nq, nt), module="Trace_BalloonBig", cfg=BIG_CFG, spec="BSpec")
    return stage


RULE_ADV = ("MC: 8-bit universe (7 keys, prefixes 0..7 bits), every insertion sequence up to MaxLen with bulks, every candidate "
            "answer with up to two edits (all field combinations x key / dropped entry; every entry replaced by every known digest; "
            "recombinations), exhaustive. TV: genuine answers of a real balloon altered by the mutation grammar (fields, other "
            "digests sharing prefixes of 0..255 bits, dropped/replaced/renamed/extra/malformed/oversized path entries, wrong lengths, "
            "recombination, wrong snapshots, 2^63 magnitudes), decoded by the real JSON decoder and verified by the real verifier in a "
            "guarded goroutine with a deadline; distinct = (kind, versions); non-trivial = altered answers")

MCC_CFG = """SPECIFICATION Spec
CONSTANTS
  Nodes = {@Nodes@}
  Events = {e1, e2}
  MaxLog = @MaxLog@
  MaxBulk = 2
  MaxCrashes = @MaxCrashes@
  MaxSnapshots = 1
  MaxBackups = @MaxBackups@
  MaxWipes = @MaxWipes@
  TransferWritesWAL = TRUE
  RebuildCacheOnRestore = TRUE
  QueryExcludesApply = TRUE
  BackupExcludesApply = TRUE
INVARIANT DurableIsPrefix
INVARIANT AckedDense
INVARIANT VersionCounter
INVARIANT ReplicasAgree
INVARIANT NoVersionPanic
INVARIANT CacheCoherent
INVARIANT QueryConsistent
INVARIANT BackupExact
INVARIANT WalServesEveryone
PROPERTY AppendOnly
VIEW View
SYMMETRY Symm
CHECK_DEADLOCK FALSE
"""
mc_cluster = mc_stage("MC_Cluster", MCC_CFG,
                      quick={"Nodes": "n1, n2", "MaxLog": 3, "MaxCrashes": 1, "MaxBackups": 1, "MaxWipes": 0},
                      thorough={"Nodes": "n1, n2, n3", "MaxLog": 3, "MaxCrashes": 1, "MaxBackups": 1, "MaxWipes": 0}, timeout=9000)
# state transfer incl. a follower whose disk is replaced and a WAL built from received transfers (C09)
mc_cluster_wipe = mc_stage("MC_Cluster", MCC_CFG, tag="mc_MC_Cluster_wipe",
                           quick={"Nodes": "n1, n2", "MaxLog": 3, "MaxCrashes": 1, "MaxBackups": 0, "MaxWipes": 1},
                           thorough={"Nodes": "n1, n2", "MaxLog": 3, "MaxCrashes": 1, "MaxBackups": 1, "MaxWipes": 1}, timeout=9000)

RULE_CLUSTER = ("MC: Cluster.tla (committed log, per-node durable store / volatile caches / raft applied index, "
                "ApplyCompute and ApplyPersist as separate steps, Crash at any point, Restart with replay filter, raft snapshot + compaction, "
                "InstallSnapshot from WAL batches, Backup, Query) exhaustively for the stated constants with VIEW hiding observation variables. "
                "TV: real 3-node clusters (real raft over loopback, RocksDB behind the gated store, symbolic hasher): every store write "
                "(fsm index, version metadata, inserted leaves), acknowledgement, restart, state transfer, store dump and every proof served "
                "by every replica is validated by TLC; distinct = (event kind, node, versions)")

PLANS = {
    "C01": plan("model_checking", [mc_history, balloon_tv_stage], RULE_BALLOON),
    "C02": plan("model_checking", [mc_balloon, adversary_tv_stage], RULE_ADV),
    "C03": plan("model_checking", [mc_history, balloon_tv_stage], RULE_BALLOON),
    "C04": plan("model_checking", [mc_history, mc_hyper, balloon_tv_stage, thorough_only(balloonbig_tv(2, 4))], RULE_BALLOON),
    "C13": plan("model_checking", [mc_balloon, balloon_tv(5, 8), wire_tv_stage, cluster_tv("replicas", 1, 2)],
                "MC: WireFaithful on the 8-bit universe (every log up to MaxLen, every digest, every query version incl. beyond current, every "
                "snapshot pair: in-process verdict = verdict of the decoded public form). TV: every membership / consistency proof of the balloon "
                "and cluster traces is verified before and after the real JSON round trip (fields + verdict, TLC-validated); commands travel through "
                "msgpack + the raft log store in the cluster runs (replica stores compared). Identity oracle (not TLA+-decided): audit-path keys "
                "up to 2^63-1, all-ones digests, snapshots / signed batches (JSON), gossip messages (msgpack), answers for versions beyond current"),
    "C14": plan("model_checking", [mc_store, store_tv_stage], RULE_STORE),
    "C15": plan("model_checking", [mc_logstore, logstore_tv_stage], RULE_LOGSTORE),
    "C05": plan("model_checking", [mc_cluster, cluster_tv("replicas", 6, 8), cluster_tv("restore", 3, 6), cluster_tv("writers", 2, 4), crashcluster_tv(2, 6)],
                RULE_CLUSTER + "; writers scenario: one client sends a bulk of 255 / 256 / 257 / 300..700 events while three others insert single events and small bulks "
                "concurrently on a 3-node cluster (every call must get consecutive versions in request order; acknowledgements recorded in version order); plus 3-process clusters whose leader is SIGKILLed before/after the store write of an insertion"),
    "C06": plan("model_checking", [mc_cluster, cluster_tv("replicas", 6, 10), cluster_tv("restore", 3, 6), crashcluster_tv(2, 6)],
                RULE_CLUSTER + "; plus 3-process clusters whose leader is SIGKILLed mid-insertion, re-election, restart and catch-up by log replay"),
    "C07": plan("fault_enumeration", [mc_cluster, crash_tv("kill", 8, 12), crashbig_tv(1, 4), crashcluster_tv(3, 8)], RULE_CLUSTER + "; long log: three bulks of ~360 events then SIGKILL at the next store write, restart, replay, sampled queries; fault enumeration: a child process hosting a real "
                "RaftNode SIGKILLs itself immediately before / after the i-th store write (every i of the workload, both sides, with and "
                "without a prior raft snapshot), is restarted on the same directories, replays its raft log, finishes the workload and "
                "answers membership queries for every event; non-trivial = each (workload, crash write, side) experiment"),
    "C08": plan("model_checking", [mc_cluster, mc_hyper, crash_tv("stop", 6, 12), cluster_tv("stopload", 2, 4), balloon_tv(4, 8), balloonbig_tv(2, 6)], RULE_CLUSTER + "; stop under load: a membership query is parked "
                "inside its history proof (gated read of the history table, cold caches) while the node is stopped: shutdown must not complete underneath it and the process must survive; clean stop + reopen of a child-process "
                "node at every prefix length (exit status checked) and close/reopen of the balloon at random points on RocksDB; scale scenario: "
                "a balloon of 1000..3900 events (one hyper cache tile per event) reopened with 999 / 1000 / 1001 / mid-page / multi-page tile counts "
                "(the cache warm-up reads 1000 tiles per page), then inserted into and queried; MC_Hyper: the incremental hyper tree used for these "
                "traces is the canonical one for every insertion sequence of a 9-key 8-bit universe up to MaxLen"),
    "C09": plan("model_checking", [mc_cluster, mc_cluster_wipe, cluster_tv("restore", 4, 10)], RULE_CLUSTER + "; MC with Wipe (a stopped node's disk is replaced) and WalServesEveryone: every idle "
                "node can bring any node holding a prefix of its events up to date from its own WAL, whatever mixture of own insertions and received transfers built it "
                "(fails for TransferWritesWAL = FALSE)"),
    "C10": plan("model_checking", [mc_cluster, cluster_tv("window", 6, 12), cluster_tv("replicas", 2, 4),
                                   race_stage([("cluster", ["-scenario", "window"]), ("cluster", ["-scenario", "replicas"]), ("cluster", ["-scenario", "backup"]), ("api", [])])],
                RULE_CLUSTER + "; thorough tier: the window / replicas / backup / HTTP scenarios once more under the Go race detector (reports between two QED sites count); window scenario: the gated store "
                "holds db.Mutate of an insertion before the real write while other goroutines issue every kind of query for old and in-flight "
                "events (and backups); replies are verified against the snapshots acknowledged afterwards"),
    "C16": plan("model_checking", [mc_cluster, mc_restore, cluster_tv("backup", 6, 12), cluster_tv("window", 2, 4)], RULE_CLUSTER + "; backup scenario: random add / backup / "
                "delete-backup sequences, then every existing backup is restored into a fresh directory and opened as a new bootstrapped node"),
    "C11": plan("model_checking", [mc_cluster, api_tv_stage], "MC: Cluster.tla (every replicated command is applied by every replica; NoVersionPanic). "
                "TV: request matrix = 5 methods x 9 API paths + 8 management URLs x generic body shapes (absent, empty, garbage, truncated, {}, null, [], "
                "wrong types, null fields, number) + targeted shapes (empty event, empty/null/missing bulk, bulk of empty events, 300-event bulk, versions "
                "{0, cur, cur+1, 2^63, 2^64-1, -1, 1.5, 2^64}, digest lengths {0,1,3,4,31,32,33,64}, start>end, backupID missing/invalid/unknown) fired at "
                "the real handlers over a real single-node RaftNode in a child process; after each request the version is read; at the end a "
                "liveness probe, a restart (log replay) and a second probe; distinct = (method, path, shape)"),
    "C17": plan("model_checking", [mc_sender, sender_tv_stage],
                "MC: Sender.tla with 3 batchers, BatchSize 2, up to MaxSnaps snapshots, every interleaving of arrivals, takes and interval ticks "
                "(BatchBound, ExactlyOnce, AllSigned; liveness EventuallyPublished under weak fairness), exhaustive. TV: the real Sender (1-4 "
                "batchers, batch size 1-5, real ed25519) with seeded arrival patterns (bursts at k*BatchSize+-1, singles, gaps around the flush "
                "interval, trickles); every produced snapshot and published batch validated; sampled signed snapshots are modified in every field "
                "and in each of the 512 signature bits and re-verified; distinct = (batch composition)"),
    "C18": plan("model_checking", [mc_gossip, gossip_tv_stage, gossiptopo_tv_stage, race_stage([("gossip", []), ("gossiptopo", [])])],
                "thorough tier: both conformance scenarios once more under the Go race detector (reports between two QED sites count). MC: Gossip.tla (agents with roles, in-flight messages with ttl, per-agent processed cache, duplication by the network): NeverSelf, "
                "NeverExhausted, OncePerAgent, Bounded over all interleavings, initial TTLs incl. 0 and negative. TV 1: 5 real agents (memberlist over "
                "loopback, real BatchProcessor, recording task manager and In-bus subscribers); batches injected with TTL in {5,4,3,2,1,0,-1,-3}, re-published "
                "and re-delivered in storms; TV 2: 8 goroutines hammering the real Topology with joins/leaves and routing decisions (Each/Get) for seconds; "
                "distinct = (agent, batch, ttl) receptions"),
    "C19": plan("model_checking", [mc_history, agents_tv_stage],
                "MC: MembershipSound / IncrementalSound of MC_History (every altered digest or path entry is rejected) are what makes 'verification fails' "
                "equivalent to 'something the task binds was altered'; Agents.tla states which published values each task binds. TV: the real task "
                "factories inside a real agent + real BatchProcessor + real HTTPClient + real apihttp handlers over a real RaftNode; per agent every "
                "single alteration of a gossiped snapshot (each digest, the version up/down), of the stored snapshot, of the log's answer (history "
                "entry, hyper entry, other event, absence claim, refusal), honest batches of 1-4 snapshots, empty / null-entry batches, and publisher "
                "redelivery patterns with overlapping batches; distinct = (role, alteration, batch range)"),
    "C20": plan("model_checking", [mc_clienttopo, mc_client, clienttopo_tv_stage, clientcalls_tv_stage],
                "MC: ClientTopology.tla over urls {a,b,c}: every update (any primary incl. none, any list of <= 3 secondaries), every dead/alive mark, every "
                "selection with each of the 5 read preferences, revive on/off, all operation sequences up to MaxOps (Safe + Fair), exhaustive. TV 1: seeded "
                "operation sequences on the REAL topology object (verif hook), one real step per specification transition with full state projection before "
                "and after. TV 2: the real HTTPClient (all preference / discovery / health-check / revive combinations) against a scripted 3-node cluster with "
                "seeded fault sequences (down, 4xx, 5xx, leader change, stale configuration); distinct = (operation, preference, state shape) / (call kind, fault history)"),
    "C12": plan("model_checking", [mc_balloon, adversary_tv_stage], RULE_ADV),
}


def replay(ctx, path):
    """Re-validate the traces saved next to a replay.json with the specification they were validated
    against and print the lines that violate the property."""
    d = os.path.dirname(os.path.abspath(path))
    info = json.load(open(path))
    print("property %s, tier %s, seed %s" % (info.get("property"), info.get("tier"), info.get("seed")))
    for v in info.get("violations", [])[:20]:
        print("  recorded:", v.get("what"), "@", v.get("where"))
    rc = 0
    for fn, ti in sorted(info.get("tlc", {}).items()):
        f = os.path.join(d, fn)
        if not os.path.exists(f):
            continue
        defs = f.replace(".ndjson", ".defs.ndjson")
        r = ctx.tlc(ti["module"], ti["cfg"] % {"trace": f, "defs": defs}, "replay", workers=1, timeout=5400)
        for also, prop, line, what in parse_viol(r["out"]) or []:
            if prop == ctx.pid or ctx.pid in also:
                print("%s line %d: %s" % (fn, line, what))
                rc = 1
    for f in sorted(glob.glob(os.path.join(d, "crash_*.txt"))):
        print("crash record:", f)
        print(open(f).read()[:1500])
        rc = 1
    return rc
